"""C02 - Parsing always terminates with a verdict: no exception, no hang.

X1 lexer progress, X2 position ownership / bounded replay, X3 loop idioms,
X4 raise closure vs the funnel, X5 decoding, X6 integer indexing, X7 constant
dict keys, X8 (=T4) registry safety, X9 %-format arity, X10 callable slot,
X11 verdict shape, L7 polynomial backtracking.
"""
import ast

from sa import rx
from sa.model import AnalysisError, walk_no_nested, norm, mangle, call_name, stmt_of, enclosing_func
from sa.util import fact_atom, cmp_parts, const_value, raise_name, contains, attr_writes
from sa.consteval import TOP
from sa.cfg import CFG, assigned_targets
from .proles import ParserRoles


def run(ctx):
    R = ParserRoles(ctx, "X")
    ctx.explanation = (
        "Termination as a progress argument and exception-freedom as an escape analysis against the single funnel in "
        "Parser.parse: (X1) every lexer rule and the whitespace pattern have minimum width >= 1 and every cycle of the "
        "lexer loop passes a position update taken from a successful match at the current position; (X2) the lexer "
        "position is written only by the lexer, except for one bounded replay (distance = exact width of the named "
        "token classes) that is conditional on a command-state change observed after the state-changing call; (X3) "
        "every other loop reachable from parse is a parent walk, a counting loop or a for over an object its body does "
        "not mutate; (X4) every exception class raised explicitly in code reachable from parse is caught by the funnel "
        "and the whole token loop is inside its try; (X5) every bytes.decode reachable from parse is of an ASCII-only "
        "token class, uses a non-raising error policy, or runs under the funnel which catches UnicodeDecodeError; (X6) "
        "every integer subscript is guarded by a length test on the same object; (X7) constant-key subscripts of "
        "per-command dictionaries are guarded by membership tests; (X8/T4) every module-level name the lookup scheme "
        "can produce is a concrete command or is rejected before attribute access; (X9) %-format arities match; (X10) "
        "the state-function slot is called only when not None; (X11) the two exits of parse have the documented shape; "
        "(L7) no lexer rule has a polynomial-backtracking shape.")
    ctx.not_decided = ("AttributeError/TypeError from a None current command (typestate between the state slot and the current command is "
                       "not proved), MemoryError/RecursionError, str.encode of lone surrogates and open() errors in parse_file.")
    ctx.assumptions = ["exceptions other than the curated kinds (decode, integer subscript, constant-key subscript, registry attribute access, "
                       "%-format arity, call through the state slot, explicit raise) are not modelled",
                       "re matches in time linear in the input for patterns without the L7 shapes"]
    x1(ctx, R)
    x2(ctx, R)
    x3(ctx, R)
    x4(ctx, R)
    x5(ctx, R)
    x6(ctx, R)
    x7(ctx, R)
    t4(ctx, R, "X8")
    x9(ctx, R)
    x10(ctx, R)
    x11(ctx, R)
    x12(ctx, R)
    x15(ctx, R)
    x13(ctx, R)
    x14(ctx, R)
    x16(ctx, R)
    x17(ctx, R)
    # ... by evaluation: the argument interpreter followed over sample argument sequences raises nothing but its own three exceptions
    from .geval import g11
    g11(ctx, R, aspects=("crash",))
    l7(ctx, R)


# ------------------------------------------------------------------------------- X1
def x1(ctx, R):
    ctx.rule("X1", "lexer progress: min width >= 1 for every rule; every cycle of the lexer loop updates the position from a successful match")
    for name, pat in R.lrules + [("<whitespace>", R.ws_pattern)]:
        try:
            P = rx.Pattern(pat, R.master_flags if name != "<whitespace>" else R.ws_flags)
        except rx.Undecidable as e:
            lo = _minwidth(pat, R.master_flags)
            if lo >= 1:
                ctx.holds("X1", "rule %s: min width %d" % (name, lo))
            else:
                ctx.violation("X1", "Parser.lrules", "empty-match:%s" % name, "lexer rule %s can match the empty string" % name,
                              file=R.pmod.relpath, line=R.Parser.node.lineno)
            continue
        if rx.accepts_empty(P):
            ctx.violation("X1", "Parser.lrules", "empty-match:%s" % name, "lexer rule %s (%r) can match the empty string: the lexer "
                          "yields an empty token without advancing" % (name, pat), file=R.pmod.relpath, line=R.Parser.node.lineno,
                          witness="any input reaching that rule: parse() never returns")
        else:
            ctx.holds("X1", "rule %s: min width %d" % (name, rx.widths(P)[0]))
    ctx.need("X1", "lexer patterns", len(R.lrules) + 1, 10)
    # the shape of the loop (which statement advances the position, from which match) is one way of writing a lexer; when the
    # lexer was followed through the sample texts - every token delivered once, in order, the scan ending at the end of the text or at
    # the first byte that is no token - the shape rules are recorded, not reported.  The width rule above holds for all inputs.
    try:
        from .c18 import lexer_eval
        lev_ = lexer_eval(ctx, R)
    except RecursionError:
        lev_ = None
    prev_ = ctx.demote(("X1",), "the evaluation of the lexer over sample texts (Z1/Z2)") if (lev_ is not None and lev_[0] == "ok") else None
    try:
        _x1_loop_shape(ctx, R)
    except AnalysisError as e:
        if prev_ is None:
            raise
        ctx.notice("X1", "lexer loop idiom not recognised (%s); decided by the evaluation of the lexer" % e.why)
    finally:
        if prev_ is not None:
            ctx.restore(prev_)


def _x1_loop_shape(ctx, R):
    scan = R.scan
    cfg = ctx.cfg(scan)
    loops = [n for n in walk_no_nested(scan.node) if isinstance(n, ast.While)]
    if len(loops) != 1:
        raise AnalysisError("X1", "Lexer.scan: expected exactly one loop, found %d" % len(loops))
    head = [n for n in cfg.nodes_for(loops[0]) if n.kind == "join"][0]
    selfname = scan.params[0]
    text_param = scan.params[1] if len(scan.params) > 1 else None

    def is_pos(e):
        return isinstance(e, ast.Attribute) and isinstance(e.value, ast.Name) and e.value.id == selfname and e.attr == "pos"

    # the text may also be read back from the attribute scan() stores it in before the loop (`self.text = text`, written nowhere else)
    text_attrs = set()
    for a in scan.node.body:
        if isinstance(a, ast.Assign) and isinstance(a.value, ast.Name) and a.value.id == text_param:
            for t in a.targets:
                if isinstance(t, ast.Attribute) and isinstance(t.value, ast.Name) and t.value.id == selfname:
                    text_attrs.add(t.attr)
    for a in walk_no_nested(loops[0]):
        for t in assigned_targets(a) if isinstance(a, (ast.Assign, ast.AugAssign)) else []:
            text_attrs.discard(t.split(".")[-1] if isinstance(t, str) else t)

    def is_text(e):
        return (isinstance(e, ast.Name) and e.id == text_param) or (
            isinstance(e, ast.Attribute) and isinstance(e.value, ast.Name) and e.value.id == selfname and e.attr in text_attrs)

    # match variables: m = <pattern>.match(text, self.pos)
    match_defs = {}
    for n in walk_no_nested(loops[0]):
        if isinstance(n, ast.Assign) and isinstance(n.targets[0], ast.Name) and isinstance(n.value, ast.Call) \
                and isinstance(n.value.func, ast.Attribute) and n.value.func.attr == "match":
            c = n.value
            at_pos = len(c.args) >= 2 and is_pos(c.args[1]) and is_text(c.args[0])
            match_defs.setdefault(n.targets[0].id, []).append((n, at_pos))
    progress = []
    for n in cfg.stmt_nodes():
        a = n.ast
        tgt = val = None
        if isinstance(a, ast.Assign) and len(a.targets) == 1 and is_pos(a.targets[0]):
            tgt, val, kind = a.targets[0], a.value, "assign"
        elif isinstance(a, ast.AugAssign) and is_pos(a.target) and isinstance(a.op, ast.Add):
            tgt, val, kind = a.target, a.value, "aug"
        if tgt is None or not contains(loops[0], a):
            continue
        mvar = None
        if kind == "assign" and isinstance(val, ast.Call) and isinstance(val.func, ast.Attribute) and val.func.attr == "end" \
                and isinstance(val.func.value, ast.Name) and not val.args:
            mvar = val.func.value.id
        elif kind == "aug" and isinstance(val, ast.Call) and call_name(val) == "len" and val.args:
            g = val.args[0]
            if isinstance(g, ast.Call) and isinstance(g.func, ast.Attribute) and g.func.attr == "group" \
                    and isinstance(g.func.value, ast.Name) and (not g.args or const_value(ctx.program, scan, g.args[0]) == 0):
                mvar = g.func.value.id
        if mvar is None or mvar not in match_defs:
            ctx.violation("X1", scan, "pos-update-shape", "the lexer position is updated by %s, which is not the end/length of a successful "
                          "match at the current position" % norm(a), node=a)
            continue

        def nonnull(fact, mvar=mvar):
            e, pol = fact_atom(fact)
            if isinstance(e, ast.Name) and e.id == mvar:
                return pol is True
            cp = cmp_parts(e)
            if cp and isinstance(cp[0], ast.Name) and cp[0].id == mvar and isinstance(cp[2], ast.Constant) and cp[2].value is None:
                return (cp[1] == "IsNot" and pol is True) or (cp[1] == "Is" and pol is False)
            return False

        def kill(node, mvar=mvar):
            return node.ast is not None and not isinstance(node.ast, (ast.If, ast.While, ast.For, ast.Try)) \
                and mvar in {x for x in assigned_targets(node.ast)}

        if not cfg.guarded(n, nonnull, kill_pred=kill):
            ctx.violation("X1", scan, "pos-update-unguarded", "the position update %s is reachable with an unsuccessful match" % norm(a), node=a)
            continue
        if not all(ap for _, ap in match_defs[mvar]):
            ctx.violation("X1", scan, "match-not-at-pos", "the match whose extent advances the position is not taken at the current position",
                          node=a)
            continue
        progress.append(n)
    if not progress:
        ctx.violation("X1", scan, "no-progress", "the lexer loop never advances the position", node=loops[0],
                      witness="any non-empty input: parse() never returns")
        return
    # every cycle through the loop head passes a progress node
    succs = [m for m, _ in head.succ]
    if head in cfg.reach(succs, avoid=progress, exc=False):
        ctx.violation("X1", scan, "cycle-without-progress", "the lexer loop has an iteration that does not advance the position",
                      node=loops[0], witness="the token on that path is delivered again and again: parse() never returns")
    else:
        ctx.holds("X1", "%s: each of the loop's back edges passes one of %d position updates taken from a successful match"
                  % (scan.qualname, len(progress)))
    # the position starts at 0 and the loop is bounded by len(text)
    t = loops[0].test
    cp = cmp_parts(t)
    if cp and is_pos(cp[0]) and cp[1] == "Lt" and isinstance(cp[2], ast.Call) and call_name(cp[2]) == "len":
        ctx.holds("X1", "%s: loop bound %s" % (scan.qualname, norm(t)))
    else:
        ctx.violation("X1", scan, "loop-bound", "the lexer loop is not bounded by the input length: %s" % norm(t), node=loops[0])


def _minwidth(pat, flags):
    from re import _parser
    return _parser.parse(pat, flags).getwidth()[0]


# ------------------------------------------------------------------------------- X2
def x2(ctx, R, rule="X2"):
    ctx.rule(rule, "who-may-write Lexer.pos = scan; a foreign write only as a bounded, state-change-conditional replay")
    writes = []
    for f in ctx.program.all_funcs():
        if f.module.name not in ("parser", "commands", "factory"):
            continue
        for n in walk_no_nested(f.node):
            if isinstance(n, ast.Attribute) and n.attr == "pos" and isinstance(n.ctx, (ast.Store, ast.Del)):
                writes.append((f, n))
    ctx.need(rule, "writes of the lexer position", len(writes), 3)
    def conditional(f, cfg, node):
        """the replay at `node` of f happens only after reassign_arguments() reported a change of the command's state"""
        changers = [c for c in walk_no_nested(f.node) if isinstance(c, ast.Call) and call_name(c) == "reassign_arguments"]
        ch_nodes = [x for c in changers for x in cfg.node_containing(c)]
        for fct in cfg.facts():
            e, pol = fact_atom(fct)
            if not (isinstance(e, ast.Call) and isinstance(e.func, ast.Attribute) and R.an("curcommand") in norm(e.func.value)):
                continue
            tests = [p for p, _ in fct.pred]
            if not ch_nodes or not all(cfg.dominates(ch_nodes, t, exc=False) for t in tests):
                continue
            if any(e is c for c in changers) and not _reassign_reports_progress(ctx):
                continue
            if not cfg.guarded(node, lambda x, fct=fct: x is fct):
                continue
            other = [s for t in tests for s, _ in t.succ if s is not fct]
            if any(node in cfg.reach(o, exc=False) for o in other):
                continue
            return True
        return False

    for f, n in writes:
        if f.cls is R.Lexer and f.name in ("scan", "__init__"):
            ctx.holds(rule, "%s: %s" % (f.qualname, norm(stmt_of(n))))
            continue
        st = stmt_of(n)
        if f.cls is R.Lexer and isinstance(st, ast.Assign) and len(st.targets) == 1 and isinstance(st.value, ast.Attribute) \
                and isinstance(st.value.value, ast.Name) and st.value.value.id == f.params[0] and len(f.params) == 1:
            # a replay offered by the lexer itself: `pos = <start of the token being processed>`
            a = st.value.attr
            why = _token_start_attr(ctx, R, a)
            if why is not None:
                ctx.violation(rule, f, "replay-target:%s" % a, "%s sets the position to self.%s, which is not the start of the token being "
                              "processed (%s)" % (f.qualname, a, why), node=st, witness="the lexer resumes somewhere else than at the replayed token")
                continue
            sites = []
            for g in ctx.program.all_funcs():
                if g.module.name in ("parser", "commands", "factory") and g.cls is not R.Lexer:
                    for c in walk_no_nested(g.node):
                        if isinstance(c, ast.Call) and isinstance(c.func, ast.Attribute) and c.func.attr == f.name and "lexer" in norm(c.func.value):
                            sites.append((g, c))
            okall = True
            for g, c in sites:
                cfg = ctx.cfg(g)
                nodes = cfg.node_containing(c)
                if not nodes or not conditional(g, cfg, nodes[0]):
                    okall = False
                    ctx.violation(rule, g, "replay-unconditional", "the lexer is rewound (%s) whether or not reassign_arguments() changed anything: "
                                  "the same token is delivered again in the same state" % norm(c), node=c,
                                  witness='`require ["imap4flags"]; if hasflag { keep; }` never returns')
            if okall:
                ctx.holds(rule, "%s: position := self.%s, the start of the token being processed; %d call site(s), each conditional on the command "
                          "state after reassign_arguments()" % (f.qualname, a, len(sites)))
            continue
        if not (isinstance(st, ast.AugAssign) and isinstance(st.op, ast.Sub)):
            ctx.violation(rule, f, "foreign-pos-write", "the lexer position is written outside the lexer: %s" % norm(st), node=st,
                          witness="position moved arbitrarily: tokens skipped or replayed without bound")
            continue
        k = const_value(ctx.program, f, st.value)
        cfg = ctx.cfg(f)
        node = cfg.nodes_for(st)[0]
        # token classes named in the guard
        toks = set()
        for fct in cfg.facts():
            e, pol = fact_atom(fct)
            cp = cmp_parts(e)
            if cp and pol is True and cp[1] in ("In", "Eq") and isinstance(cp[0], ast.Name) and "type" in cp[0].id:
                v = const_value(ctx.program, f, cp[2])
                if v is not TOP and cfg.guarded(node, lambda x, fct=fct: x is fct):
                    toks |= set(v if isinstance(v, (list, tuple, set)) else [v])
        if not toks:
            ctx.violation(rule, f, "replay-unbounded", "the replay %s is not restricted to named token classes" % norm(st), node=st)
            continue
        widths = {}
        for t in toks:
            try:
                widths[t] = rx.widths(R.pattern(t))
            except (AnalysisError, rx.Undecidable):
                widths[t] = (None, None)
        if k is TOP or not all(w == (k, k) for w in widths.values()):
            ctx.violation(rule, f, "replay-distance", "the replay distance %s differs from the exact width of the replayed token classes %s"
                          % (norm(st.value), widths), node=st, witness="the lexer resumes in the middle of a token or before the previous one")
            continue
        # conditional on a state change observed after the state-changing call
        changers = [c for c in walk_no_nested(f.node) if isinstance(c, ast.Call) and call_name(c) == "reassign_arguments"]
        ch_nodes = [x for c in changers for x in cfg.node_containing(c)]
        ok = False
        for fct in cfg.facts():
            e, pol = fact_atom(fct)
            if not (isinstance(e, ast.Call) and isinstance(e.func, ast.Attribute) and R.an("curcommand") in norm(e.func.value)):
                continue
            tests = [p for p, _ in fct.pred]
            if not ch_nodes or not all(cfg.dominates(ch_nodes, t, exc=False) for t in tests):
                continue
            if any(e is c for c in changers) and not _reassign_reports_progress(ctx):
                continue  # the call's own verdict is trusted, but an implementation can answer True without having moved anything
            if not cfg.guarded(node, lambda x, fct=fct: x is fct):
                continue
            # the other arm never reaches the replay
            other = [s for t in tests for s, _ in t.succ if s is not fct]
            if any(node in cfg.reach(o, exc=False) for o in other):
                continue
            ok = True
        if ok:
            ctx.holds(rule, "%s: replay of %s by %s, conditional on the command state after reassign_arguments()" % (f.qualname, sorted(toks), k))
        else:
            ctx.violation(rule, f, "replay-unconditional", "the lexer is rewound (%s) whether or not reassign_arguments() changed anything: "
                          "the same token is delivered again in the same state" % norm(st), node=st,
                          witness='`require ["imap4flags"]; if hasflag { keep; }` never returns')


def _token_start_attr(ctx, R, a):
    """None when, in Lexer.scan, every yield is preceded in its iteration by `self.a = m.start()` of the match whose text is yielded
    (nothing else writes self.a in between); else the reason."""
    scan = R.scan
    cfg = ctx.cfg(scan)
    sn = scan.params[0]
    ys = [n for n in cfg.stmt_nodes() if isinstance(n.ast, ast.Expr) and isinstance(n.ast.value, ast.Yield)]
    if not ys:
        return "scan does not yield"
    writes = [n for n in cfg.stmt_nodes() if isinstance(n.ast, (ast.Assign, ast.AugAssign)) and any(
        isinstance(t, ast.Attribute) and t.attr == a and isinstance(t.value, ast.Name) and t.value.id == sn
        for t in (n.ast.targets if isinstance(n.ast, ast.Assign) else [n.ast.target]))]
    for y in ys:
        mv = {x.func.value.id for x in ast.walk(y.ast) if isinstance(x, ast.Call) and isinstance(x.func, ast.Attribute) and x.func.attr == "group"
              and isinstance(x.func.value, ast.Name)}
        good = [w for w in writes if isinstance(w.ast, ast.Assign) and isinstance(w.ast.value, ast.Call) and isinstance(w.ast.value.func, ast.Attribute)
                and w.ast.value.func.attr == "start" and not w.ast.value.args and isinstance(w.ast.value.func.value, ast.Name)
                and w.ast.value.func.value.id in mv]
        # ... or the position itself, copied while it still is the start of the match (match taken at pos, pos not yet advanced)
        if not good:
            return "no assignment self.%s = <match>.start() for the yielded match" % a
        others = [w for w in writes if w not in good]
        loops = [n for n in walk_no_nested(scan.node) if isinstance(n, ast.While)]
        if not cfg.guarded(y, lambda f_: False, kill_pred=lambda m_: m_ in others or (loops and m_.ast is loops[0]), establish=lambda m_: m_ in good):
            return "a yield is reachable without self.%s having been set to the start of the yielded match in that iteration" % a
    return None


def _reassign_reports_progress(ctx):
    """Every reassign_arguments implementation returns a truthy value only after it has moved a value between slots."""
    prog = ctx.program
    impls = [c.methods["reassign_arguments"] for c in prog.all_classes() if c.module.name == "commands" and "reassign_arguments" in c.methods]
    for g in impls:
        cfg = ctx.cfg(g)
        moves = [x for x in cfg.stmt_nodes() if isinstance(x.ast, ast.Assign) and any(
            isinstance(t, ast.Subscript) and isinstance(t.value, ast.Attribute) and t.value.attr == "arguments" for t in x.ast.targets)]
        for r in walk_no_nested(g.node):
            if not isinstance(r, ast.Return) or r.value is None:
                continue
            v = const_value(prog, g, r.value)
            if v is not TOP and not v:
                continue
            if not moves or not all(cfg.dominates(moves, x, exc=False) for x in cfg.nodes_for(r)):
                return False
    return bool(impls)


# ------------------------------------------------------------------------------- X3
def x3(ctx, R):
    ctx.rule("X3", "loops reachable from parse: parent walk / counting loop / for over an unmodified object")
    nl = 0
    for f in R.reachable():
        if f is R.scan:
            continue
        cfg = None
        for lp in walk_no_nested(f.node):
            if isinstance(lp, ast.While):
                nl += 1
                cfg = cfg or ctx.cfg(f)
                head = [n for n in cfg.nodes_for(lp) if n.kind == "join"][0]
                succs = [m for m, _ in head.succ]
                kind = None
                # parent walk: V = V.parent on every cycle
                steps = []
                for n in cfg.stmt_nodes():
                    a = n.ast
                    if isinstance(a, ast.Assign) and contains(lp, a) and isinstance(a.value, ast.Attribute) and a.value.attr == "parent" \
                            and norm(a.value.value) == norm(a.targets[0]) and norm(a.targets[0]) in norm(lp.test):
                        steps.append(n)
                if steps and head not in cfg.reach(succs, avoid=steps, exc=False):
                    kind = "parent walk (%s)" % norm(steps[0].ast)
                # counting loop: I < len(X), I += k on every cycle
                if kind is None:
                    cp = cmp_parts(lp.test)
                    if cp and cp[1] in ("Lt", "LtE") and isinstance(cp[0], ast.Name) and isinstance(cp[2], ast.Call) and call_name(cp[2]) == "len":
                        incs = [n for n in cfg.stmt_nodes() if isinstance(n.ast, ast.AugAssign) and contains(lp, n.ast)
                                and isinstance(n.ast.op, ast.Add) and norm(n.ast.target) == cp[0].id
                                and isinstance(const_value(ctx.program, f, n.ast.value), int) and const_value(ctx.program, f, n.ast.value) > 0]
                        others = [n for n in cfg.stmt_nodes() if n.ast is not None and contains(lp, n.ast) and n not in incs
                                  and not isinstance(n.ast, (ast.If, ast.While, ast.For, ast.Try)) and cp[0].id in assigned_targets(n.ast)]
                        if incs and not others and head not in cfg.reach(succs, avoid=incs, exc=False):
                            kind = "counting loop (%s)" % norm(incs[0].ast)
                if kind:
                    ctx.holds("X3", "%s: while %s: %s" % (f.qualname, norm(lp.test)[:40], kind))
                else:
                    ctx.violation("X3", f, "loop:%s" % norm(lp.test)[:50], "loop `while %s` is neither a parent walk nor a counting loop: "
                                  "termination not established" % norm(lp.test)[:60], node=lp)
            elif isinstance(lp, ast.For):
                nl += 1
                itn = norm(lp.iter)
                mut = [c for c in walk_no_nested(lp) if isinstance(c, ast.Call) and isinstance(c.func, ast.Attribute)
                       and c.func.attr in ("append", "insert", "extend", "remove", "pop") and norm(c.func.value) == itn]
                mut += [a for a in walk_no_nested(lp) if isinstance(a, ast.AugAssign) and norm(a.target) == itn]
                if mut:
                    ctx.violation("X3", f, "for-mutates:%s" % itn[:40], "the loop over %s modifies it while iterating" % itn, node=lp)
                else:
                    ctx.holds("X3", "%s: for over %s (not modified in the body)" % (f.qualname, itn[:40]))
    ctx.need("X3", "loops reachable from parse", nl, 4)
    # the parent chain is acyclic: .parent written only in Command.__init__
    ws = attr_writes(ctx.program, "parent", modules=["parser", "commands"])
    bad = [(f, n) for f, n, k, t in ws if not (f.cls is not None and f.name == "__init__")]
    if bad:
        for f, n in bad:
            ctx.violation("X3", f, "parent-rewired", "Command.parent is assigned outside __init__: the parent chain may become cyclic", node=n)
    else:
        ctx.holds("X3", "Command.parent is written only by __init__ (%d writes): parent chains are finite" % len(ws))


# ------------------------------------------------------------------------------- X4
def funnel(ctx, R, rule):
    parse = R.parse
    tries = [n for n in parse.node.body if isinstance(n, ast.Try)]
    if len(tries) != 1:
        raise AnalysisError(rule, "Parser.parse: expected one top-level try, found %d" % len(tries))
    tr = tries[0]
    caught = set()
    for h in tr.handlers:
        if h.type is None:
            caught.add("BaseException")
        else:
            for t in (h.type.elts if isinstance(h.type, ast.Tuple) else [h.type]):
                caught.add(t.id if isinstance(t, ast.Name) else getattr(t, "attr", "?"))
    return tr, caught


BUILTIN_BASES = {
    "UnicodeDecodeError": ["UnicodeError", "ValueError", "Exception", "BaseException"],
    "UnicodeError": ["ValueError", "Exception", "BaseException"],
    "ValueError": ["Exception", "BaseException"], "KeyError": ["LookupError", "Exception", "BaseException"],
    "IndexError": ["LookupError", "Exception", "BaseException"], "TypeError": ["Exception", "BaseException"],
    "AttributeError": ["Exception", "BaseException"], "NotImplementedError": ["RuntimeError", "Exception", "BaseException"],
    "Exception": ["BaseException"],
}


def is_caught(ctx, name, caught):
    if name in caught:
        return True
    c = ctx.program.cls(name)
    if c is not None:
        names = [x.name for x in ctx.program.mro(c)]
        ext = []
        for x in ctx.program.mro(c):
            ext += x.base_names
        return bool(set(names + ext) & caught) or ("Exception" in caught or "BaseException" in caught)
    return bool(set(BUILTIN_BASES.get(name, [])) & caught)


def handler_reachable(ctx, R, tr):
    """Functions that can run from inside the funnel's handler body (they are NOT protected by the funnel)."""
    out = {}
    todo = []
    for h in tr.handlers:
        for c in walk_no_nested(h):
            if isinstance(c, ast.Call):
                todo.append(call_name(c))
    by_name = {}
    for f in ctx.program.all_funcs():
        if f.module.name in ("parser", "commands"):
            by_name.setdefault(f.name.lstrip("_") if not f.name.startswith("__") or f.name.endswith("__") else f.name.lstrip("_"), []).append(f)
    # str(e) -> __str__ of every exception class the funnel may catch
    if any(isinstance(c, ast.Call) and call_name(c) == "str" for h in tr.handlers for c in walk_no_nested(h)):
        for c in ctx.program.all_classes():
            if c.module.name in ("parser", "commands") and "__str__" in c.methods:
                out[id(c.methods["__str__"].node)] = c.methods["__str__"]
    seen = set()
    while todo:
        nm = todo.pop()
        if nm is None or nm in seen:
            continue
        seen.add(nm)
        for f in by_name.get(nm.lstrip("_"), []):
            if f.cls is not None and f.cls.name in ("Lexer", "Parser") and f.name not in ("parse",):
                out[id(f.node)] = f
                for c in walk_no_nested(f.node):
                    if isinstance(c, ast.Call):
                        todo.append(call_name(c))
    return list(out.values())


def _outside_domain(ctx, R, f, r):
    """The raise is taken only for calls the property does not speak about: an argument that is neither str nor bytes (a type test on
    parse()'s own parameter failed), or a parse() re-entered while it is running (a scoped busy flag of the parser is set)."""
    from .c13 import scoped_flags
    cfg = ctx.cfg(f)
    text = f.params[1] if len(f.params) > 1 else None
    flags = {a for a, v in scoped_flags(ctx, R).items() if v == "scoped"}

    def excluded(fc):
        e, pol = fact_atom(fc)
        if isinstance(e, ast.Call) and call_name(e) == "isinstance" and len(e.args) == 2 and isinstance(e.args[0], ast.Name) and e.args[0].id == text \
                and pol is False:
            names = {norm(x).split(".")[-1] for x in (e.args[1].elts if isinstance(e.args[1], ast.Tuple) else [e.args[1]])}
            return "bytes" in names  # not bytes (str was converted before, or is refused as well)
        if isinstance(e, ast.Attribute) and isinstance(e.value, ast.Name) and e.value.id == f.params[0] and e.attr in flags and pol is True:
            return True
        return False
    nodes = cfg.nodes_for(r)
    return bool(nodes) and all(cfg.guarded(nd, excluded) for nd in nodes)


def x4(ctx, R):
    ctx.rule("X4", "raise closure: classes raised in code reachable from parse are caught by the funnel; the token loop is inside the try")
    tr, caught = funnel(ctx, R, "X4")
    n = 0
    table = R.table()
    for f in R.reachable():
        for r in walk_no_nested(f.node):
            if not isinstance(r, ast.Raise):
                continue
            n += 1
            name = raise_name(r)
            if f is R.parse and _outside_domain(ctx, R, f, r):
                ctx.holds("X4", "%s: raise %s only for an argument that is neither str nor bytes, or when parse() is re-entered while it runs"
                          % (f.qualname, name))
                continue
            if f is R.parse and not contains(tr, r):
                ctx.violation("X4", f, "raise-outside-try:%s" % name, "parse() raises %s outside the funnel" % name, node=r)
                continue
            if f is R.parse and any(contains(h, r) for h in tr.handlers):
                ctx.violation("X4", f, "raise-in-handler:%s" % name, "the funnel's handler itself raises %s" % name, node=r)
                continue
            if name is None:
                ctx.violation("X4", f, "bare-raise", "re-raise in code reachable from parse", node=r)
                continue
            if is_caught(ctx, name, caught):
                ctx.holds("X4", "%s: raise %s (caught)" % (f.qualname, name))
                continue
            if name == "NotImplementedError":
                # discharged by T3: the abstract method is overridden wherever it can be called
                if f.name == "reassign_arguments":
                    missing = [c for c, e in table.items() if e.get("non_deterministic_args") and "reassign_arguments" not in e["overrides"]]
                    if not missing:
                        ctx.holds("X4", "%s: NotImplementedError unreachable (every non-deterministic command overrides it)" % f.qualname)
                        continue
                    ctx.violation("X4", f, "abstract-reachable:%s" % ",".join(missing), "reassign_arguments is not overridden by %s" % missing, node=r)
                    continue
                if f.name == "get_type":
                    missing = [c for c, e in table.items() if not e["abstract"] and e.get("_type") is None]
                    if not missing:
                        ctx.holds("X4", "%s: NotImplementedError unreachable (every concrete command has _type)" % f.qualname)
                        continue
                    ctx.violation("X4", f, "abstract-reachable:%s" % ",".join(missing), "_type undefined for %s" % missing, node=r)
                    continue
            ctx.violation("X4", f, "uncaught:%s" % name, "%s raised in %s is not caught by parse()'s handler %s" % (name, f.qualname, sorted(caught)),
                          node=r, witness="parse() raises %s instead of returning False" % name)
    for g in handler_reachable(ctx, R, tr):
        for r in walk_no_nested(g.node):
            if isinstance(r, ast.Raise):
                ctx.violation("X4", g, "raise-below-handler:%s" % raise_name(r), "%s is called from the funnel's handler and raises %s: nothing catches it"
                              % (g.qualname, raise_name(r)), node=r, witness="parse() raises while reporting an error")
    ctx.need("X4", "raise sites reachable from parse", n, 12)
    # the token loop (every use of the lexer and of the state machine) is inside the try
    for st in R.parse.node.body:
        if st is tr:
            continue
        for c in walk_no_nested(st):
            if isinstance(c, ast.Call) and isinstance(c.func, ast.Attribute) and isinstance(c.func.value, ast.Name) \
                    and c.func.value.id == R.parse.params[0]:
                nm = c.func.attr.lstrip("_")
                if nm in ("command", "arguments", "argument", "stringlist", "up", "check_command_completion") or "scan" in norm(c):
                    ctx.violation("X4", R.parse, "state-machine-outside-try", "%s is called outside the funnel" % norm(c)[:50], node=c)
            if isinstance(c, ast.Call) and "scan" in norm(c.func):
                ctx.violation("X4", R.parse, "lexer-outside-try", "the lexer is driven outside the funnel", node=c)
    fors = [x for x in ast.walk(tr) if isinstance(x, ast.For) and "scan" in norm(x.iter)]
    if fors and all(any(contains(b, x) for b in tr.body) for x in fors):
        ctx.holds("X4", "the token loop is inside the funnel's try body; handler catches %s" % sorted(caught))
    else:
        ctx.violation("X4", R.parse, "loop-outside-try", "the token loop is not inside the try", node=tr)
    need = {"ParseError", "CommandError"}
    miss = [x for x in need if not is_caught(ctx, x, caught)]
    if miss:
        ctx.violation("X4", R.parse, "funnel-narrowed:%s" % ",".join(sorted(miss)), "the funnel no longer catches %s" % miss, node=tr,
                      witness="an unknown command or a bad argument makes parse() raise")


# ------------------------------------------------------------------------------- X5
def token_class_of(ctx, cfg, f, node, var):
    """Token classes that the dominating ttype tests allow at `node`."""
    classes = None
    for fct in cfg.facts():
        e, pol = fact_atom(fct)
        cp = cmp_parts(e)
        if not cp or not isinstance(cp[0], ast.Name) or "type" not in cp[0].id:
            continue
        v = const_value(ctx.program, f, cp[2])
        if v is TOP:
            continue
        vals = set(v if isinstance(v, (list, tuple, set)) else [v])
        positive = (cp[1] in ("Eq", "In") and pol is True) or (cp[1] in ("NotEq", "NotIn") and pol is False)
        if positive and cfg.guarded(node, lambda x, fct=fct: x is fct):
            classes = vals if classes is None else classes & vals
    return classes


def x5(ctx, R):
    ctx.rule("X5", "every bytes.decode reachable from parse: ASCII-only token class, non-raising error policy, or under the funnel catching UnicodeDecodeError")
    tr, caught = funnel(ctx, R, "X5")
    funnel_ok = is_caught(ctx, "UnicodeDecodeError", caught)
    hreach = handler_reachable(ctx, R, tr)
    n = 0
    for f in R.reachable() + [g for g in hreach if not any(g is x for x in R.reachable())]:
        for c in walk_no_nested(f.node):
            if not (isinstance(c, ast.Call) and isinstance(c.func, ast.Attribute) and c.func.attr == "decode"):
                continue
            n += 1
            label = "%s: %s" % (f.qualname, norm(c))
            errors = None
            if len(c.args) >= 2:
                errors = const_value(ctx.program, f, c.args[1])
            for k in c.keywords:
                if k.arg == "errors":
                    errors = const_value(ctx.program, f, k.value)
            if errors in ("replace", "ignore", "backslashreplace", "surrogateescape", "namereplace", "xmlcharrefreplace"):
                ctx.holds("X5", label, "errors=%s cannot raise" % errors)
                continue
            cfg = ctx.cfg(f)
            nodes = cfg.node_containing(c)
            classes = token_class_of(ctx, cfg, f, nodes[0], None) if nodes else None
            if classes:
                try:
                    ascii_only = all(not (rx.byteset(R.pattern(t)) >> 128) for t in classes)
                except (AnalysisError, rx.Undecidable):
                    ascii_only = False
                if ascii_only:
                    ctx.holds("X5", label, "token classes %s are ASCII-only" % sorted(classes))
                    continue
            in_handler = (f is R.parse and any(contains(h, c) for h in tr.handlers)) or any(f is g for g in hreach)
            outside = f is R.parse and not contains(tr, c)
            if funnel_ok and not in_handler and not outside:
                ctx.holds("X5", label, "runs under the funnel, which catches UnicodeDecodeError")
                continue
            ctx.violation("X5", f, "decode:%s" % norm(c), "%s can raise UnicodeDecodeError (token classes %s may contain any byte) and nothing "
                          "catches it" % (norm(c), sorted(classes) if classes else "unknown"), node=c,
                          witness='`keep "\\xff";` makes parse() raise UnicodeDecodeError')
    ctx.need("X5", "decode sites", n, 1)


# ------------------------------------------------------------------------------- X6
def expr_guards(node):
    """(expr, polarity) facts that short-circuit evaluation guarantees when
    `node` is evaluated, inside its own statement."""
    out = []
    cur = node
    p = getattr(cur, "_parent", None)
    while p is not None and not isinstance(p, ast.stmt):
        if isinstance(p, ast.BoolOp) and cur in p.values:
            i = p.values.index(cur)
            for v in p.values[:i]:
                out.append((v, isinstance(p.op, ast.And)))
        elif isinstance(p, ast.IfExp):
            if cur is p.body:
                out.append((p.test, True))
            elif cur is p.orelse:
                out.append((p.test, False))
        cur = p
        p = getattr(cur, "_parent", None)
    return out


def _atom(e, pol):
    class F:
        pass
    f = F()
    f.expr, f.pol = e, pol
    return fact_atom(f)


def length_fact(e, pol, obj_text, need):
    """Does (e, pol) establish len(obj) >= need (need >= 1)?"""
    e, pol = _atom(e, pol)
    if norm(e) == obj_text:
        return pol is True and need <= 1
    if isinstance(e, ast.Call) and call_name(e) == "len" and e.args and norm(e.args[0]) == obj_text:
        return pol is True and need <= 1
    cp = cmp_parts(e)
    if cp and isinstance(cp[0], ast.Call) and call_name(cp[0]) == "len" and cp[0].args and norm(cp[0].args[0]) == obj_text \
            and isinstance(cp[2], ast.Constant) and isinstance(cp[2].value, int):
        k = cp[2].value
        op = cp[1]
        if pol is False:
            op = {"Lt": "GtE", "LtE": "Gt", "Gt": "LtE", "GtE": "Lt", "Eq": "NotEq", "NotEq": "Eq"}.get(op)
        if op == "GtE":
            return k >= need
        if op == "Gt":
            return k + 1 >= need
        if op == "NotEq":
            return k == 0 and need <= 1
    return False


def x6(ctx, R):
    ctx.rule("X6", "integer subscripts reachable from parse are guarded by a length test on the same object")
    n = 0
    for f in R.reachable():
        cfg = None
        for s in walk_no_nested(f.node):
            if not isinstance(s, ast.Subscript) or isinstance(s.slice, ast.Slice) or not isinstance(s.ctx, ast.Load):
                continue
            idx = s.slice
            kv = const_value(ctx.program, f, idx)
            if isinstance(kv, (str, bytes)):
                continue  # dictionary key: X7
            if kv is TOP and isinstance(idx, ast.Attribute):
                n += 1
                ctx.violation("X6", f, "index:%s" % norm(s), "%s indexes by %s without any length test on the indexed object (a byte offset used as a "
                              "character index?)" % (norm(s), norm(idx)), node=s,
                              witness="`# ééééééééééééé\nif true ;` : IndexError escapes parse()")
                continue
            if kv is TOP and not (isinstance(idx, ast.Name)):
                continue
            if kv is TOP and isinstance(idx, ast.Name) and not is_int_var(f, idx.id):
                continue  # a dictionary keyed by a computed name (registry lookups are rule T4)
            # typing annotations (List[str]) are not evaluated at run time inside function bodies we analyse
            if isinstance(s.value, ast.Name) and s.value.id in ("List", "Dict", "Optional", "Union", "Tuple", "Iterator"):
                continue
            n += 1
            obj = norm(s.value)
            label = "%s: %s" % (f.qualname, norm(s))
            cfg = cfg or ctx.cfg(f)
            nodes = cfg.node_containing(s)
            if isinstance(kv, int):
                need = kv + 1 if kv >= 0 else -kv
                # a tuple/list literal just built
                if isinstance(s.value, (ast.Tuple, ast.List)) and len(s.value.elts) >= need:
                    ctx.holds("X6", label, "literal")
                    continue
                lit = literal_length(ctx, f, s.value)
                if lit is not None and lit >= need:
                    ctx.holds("X6", label, "object is a %d-element literal assigned just before" % lit)
                    continue
                if any(length_fact(e, pol, obj, need) for e, pol in expr_guards(s)):
                    ctx.holds("X6", label, "guarded in the same expression")
                    continue
                if nodes and all(cfg.guarded(x, lambda fc: length_fact(fc.expr, fc.pol, obj, need)) for x in nodes):
                    ctx.holds("X6", label, "guarded by a dominating length test")
                    continue
                # the result of a method of the same class all of whose returns are tuple literals long enough
                if isinstance(s.value, ast.Call) and isinstance(s.value.func, ast.Attribute) and isinstance(s.value.func.value, ast.Name) \
                        and f.cls is not None and f.params and s.value.func.value.id == f.params[0]:
                    callee = ctx.program.method(f.cls, s.value.func.attr) or ctx.program.method(f.cls, mangle(f.cls.name, s.value.func.attr))
                    rets_ = [r_ for r_ in walk_no_nested(callee.node) if isinstance(r_, ast.Return)] if callee is not None else []
                    if rets_ and all(isinstance(r_.value, ast.Tuple) and len(r_.value.elts) >= need and not any(
                            isinstance(x_, ast.Starred) for x_ in r_.value.elts) for r_ in rets_):
                        ctx.holds("X6", label, "%s returns %d-tuples" % (callee.qualname, min(len(r_.value.elts) for r_ in rets_)))
                        continue
                # obj itself indexed from a guarded object of known shape, e.g. stack[-1][0] with tuples pushed
                if isinstance(s.value, ast.Subscript) and pushed_tuple_len(ctx, R, s.value.value) >= need:
                    ctx.holds("X6", label, "elements of %s are %d-tuples" % (norm(s.value.value), pushed_tuple_len(ctx, R, s.value.value)))
                    continue
            elif isinstance(idx, ast.Name):
                ok = False

                def bound(fc, idx=idx, obj=obj):
                    e, pol = fact_atom(fc)
                    cp = cmp_parts(e)
                    return bool(cp and pol is True and cp[1] == "Lt" and norm(cp[0]) == idx.id and isinstance(cp[2], ast.Call)
                                and call_name(cp[2]) == "len" and cp[2].args and norm(cp[2].args[0]) == obj)

                def kill(node, idx=idx):
                    return node.ast is not None and not isinstance(node.ast, (ast.If, ast.While, ast.For, ast.Try)) \
                        and idx.id in assigned_targets(node.ast)
                if nodes and all(cfg.guarded(x, bound, kill_pred=kill) for x in nodes):
                    ok = True
                elif nodes and all(flag_guard(cfg, x, bound, kill) for x in nodes):
                    ok = True
                if ok:
                    ctx.holds("X6", label, "index bounded by the loop test")
                    continue
            ctx.violation("X6", f, "index:%s" % norm(s), "%s may be evaluated when %s is too short (no dominating length test)" % (norm(s), obj),
                          node=s, witness="IndexError escapes parse()")
    ctx.need("X6", "integer subscripts", n, 5)


def is_int_var(f, name):
    """Local used as an integer index: incremented by a constant or compared with len()."""
    for n in walk_no_nested(f.node):
        if isinstance(n, ast.AugAssign) and isinstance(n.target, ast.Name) and n.target.id == name \
                and isinstance(n.value, ast.Constant) and isinstance(n.value.value, int):
            return True
        if isinstance(n, ast.Compare) and isinstance(n.left, ast.Name) and n.left.id == name and any(
                isinstance(c, ast.Call) and call_name(c) == "len" for c in n.comparators):
            return True
    return False


def literal_length(ctx, f, obj):
    """obj is an attribute/name assigned a tuple/list literal in the statement
    right before its use (same block)."""
    t = norm(obj)
    best = None
    for a in walk_no_nested(f.node):
        if isinstance(a, ast.Assign) and any(norm(x) == t for x in a.targets) and isinstance(a.value, (ast.Tuple, ast.List)):
            best = len(a.value.elts)
    return best


def pushed_tuple_len(ctx, R, container):
    """Length of the tuples appended to the given container attribute
    anywhere in the Parser class (0 if unknown)."""
    t = norm(container)
    lens = []
    for f in R.Parser.methods.values():
        for c in walk_no_nested(f.node):
            if isinstance(c, ast.Call) and isinstance(c.func, ast.Attribute) and c.func.attr == "append" and norm(c.func.value) == t and c.args:
                lens.append(len(c.args[0].elts) if isinstance(c.args[0], ast.Tuple) else 0)
            if isinstance(c, ast.AugAssign) and norm(c.target) == t:
                if isinstance(c.value, ast.List) and all(isinstance(e, ast.Tuple) for e in c.value.elts):
                    lens += [len(e.elts) for e in c.value.elts]
                else:
                    lens.append(0)
            if isinstance(c, ast.Assign) and any(norm(x) == t for x in c.targets):
                if isinstance(c.value, ast.List) and not c.value.elts:
                    continue
                lens.append(0)
    return min(lens) if lens else 0


def flag_guard(cfg, use, bound, kill):
    """`use` sits under `if <flag>:` where <flag> is a local boolean that is
    False initially and set True only at nodes that are themselves guarded by
    `bound`, with no kill between such a node and `use`."""
    flags = []
    for fc in cfg.facts():
        e, pol = fact_atom(fc)
        if isinstance(e, ast.Name) and pol is True and cfg.guarded(use, lambda x, fc=fc: x is fc):
            flags.append(e.id)
    for fl in flags:
        defs = [n for n in cfg.stmt_nodes() if isinstance(n.ast, ast.Assign) and any(
            isinstance(t, ast.Name) and t.id == fl for t in n.ast.targets)]
        trues = [d for d in defs if not (isinstance(d.ast.value, ast.Constant) and not d.ast.value.value)]
        falses = [d for d in defs if d not in trues]
        if not trues or not all(isinstance(d.ast.value, ast.Constant) for d in defs):
            continue
        ok = True
        for d in trues:
            if not cfg.guarded(d, bound, kill_pred=kill):
                ok = False
            # from d to use: no kill of the index
            r = cfg.reach(d, exc=False)
            for x in r:
                if x is not use and x.kind in ("stmt", "loop") and kill(x) and use in cfg.reach(x, exc=False):
                    ok = False
        if ok:
            return True
    return False


# ------------------------------------------------------------------------------- X7
SLOT_KEYS_ALWAYS = {"name", "type"}


def in_annotation(n):
    """n lies inside a parameter / return / variable annotation (never evaluated by the code under analysis)"""
    p = getattr(n, "_parent", None)
    c = n
    while p is not None and not isinstance(p, ast.stmt) or isinstance(p, (ast.FunctionDef, ast.AsyncFunctionDef, ast.AnnAssign)):
        if isinstance(p, ast.arg) and p.annotation is c:
            return True
        if isinstance(p, (ast.FunctionDef, ast.AsyncFunctionDef)):
            return p.returns is c
        if isinstance(p, ast.AnnAssign):
            return p.annotation is c
        c, p = p, getattr(p, "_parent", None)
    return False


def x7(ctx, R):
    ctx.rule("X7", "constant-key subscripts of per-command dictionaries / slot definitions are guarded by membership tests")
    n = 0
    for f in R.reachable():
        if f.module.name != "commands":
            continue
        cfg = None
        for s in walk_no_nested(f.node):
            key = None
            obj = None
            if isinstance(s, ast.Subscript) and isinstance(s.ctx, ast.Load) and not isinstance(s.slice, ast.Slice) and not in_annotation(s):
                kv = const_value(ctx.program, f, s.slice)
                if isinstance(kv, str):
                    key, obj = kv, s.value
            elif isinstance(s, ast.Call) and isinstance(s.func, ast.Attribute) and s.func.attr == "pop" and len(s.args) == 1:
                kv = const_value(ctx.program, f, s.args[0])
                if isinstance(kv, str):
                    key, obj = kv, s.func.value
            if key is None:
                continue
            n += 1
            label = "%s: %s" % (f.qualname, norm(s))
            objt = norm(obj)
            if key in SLOT_KEYS_ALWAYS and "arguments" not in objt:
                ctx.holds("X7", label, "key '%s' is mandatory in every slot definition (T2)" % key)
                continue

            def member(e, pol):
                e, pol = _atom(e, pol)
                cp = cmp_parts(e)
                if cp and cp[1] in ("In", "NotIn") and norm(cp[2]) == objt:
                    if const_value(ctx.program, f, cp[0]) == key:
                        return pol is (cp[1] == "In")
                return False
            if any(member(e, pol) for e, pol in expr_guards(s)):
                ctx.holds("X7", label, "guarded in the same expression")
                continue
            cfg = cfg or ctx.cfg(f)
            nodes = cfg.node_containing(s)
            if nodes and all(cfg.guarded(x, lambda fc: member(fc.expr, fc.pol)) for x in nodes):
                ctx.holds("X7", label, "guarded by a dominating membership test")
                continue
            # a method of the object itself (self.<dict>[key]) whose every call from code that parse() can run sits behind the
            # membership test on the same dictionary of the same object
            if f.cls is not None and f.params and objt.startswith(f.params[0] + "."):
                sites = []
                for g in R.reachable():
                    for c_ in walk_no_nested(g.node):
                        if isinstance(c_, ast.Call) and call_name(c_) == f.name and g is not f:
                            sites.append((g, c_))
                def site_guarded(g, c_):
                    if not (isinstance(c_.func, ast.Attribute) and g.cls is not None and g.params and norm(c_.func.value) == g.params[0]):
                        return False
                    want_obj = g.params[0] + objt[len(f.params[0]):]
                    cg = ctx.cfg(g)

                    def mem(fc):
                        e_, pol_ = _atom(fc.expr, fc.pol)
                        cp_ = cmp_parts(e_)
                        return bool(cp_ and cp_[1] in ("In", "NotIn") and norm(cp_[2]) == want_obj and const_value(ctx.program, g, cp_[0]) == key
                                    and pol_ is (cp_[1] == "In"))
                    nd_ = cg.node_containing(c_)
                    return bool(nd_) and all(cg.guarded(x, mem) for x in nd_)
                if sites and all(site_guarded(g, c_) for g, c_ in sites):
                    ctx.holds("X7", label, "every call of %s that parse() can reach is behind the membership test (%s)" % (
                        f.qualname, ", ".join(sorted({g.qualname for g, _ in sites}))))
                    continue
            # extra_arg sub-dictionary: guarded through the test on its parent slot
            ctx.violation("X7", f, "key:%s[%s]" % (objt, key), "%s is evaluated without a test that the key is present" % norm(s), node=s,
                          witness="`require;` : KeyError escapes parse()" if key == "capabilities" else "KeyError escapes parse()")
    ctx.need("X7", "constant-key subscripts", n, 10)


# ------------------------------------------------------------------------------- X14
STR_ONLY = {"lower", "upper", "strip", "lstrip", "rstrip", "startswith", "endswith", "split", "replace", "encode", "decode", "capitalize"}


def x14(ctx, R):
    """The value the parser hands to check_next_arg is a str, a list (string list) or a Command (test).  A method that only str has,
    applied to it, raises AttributeError for the other two - outside the exception classes parse() catches.  Such a use (directly,
    or inside the value-validity helper) must lie behind the type test of the slot the value is being matched with."""
    from .c01 import _cna_names
    ctx.rule("X14", "str-only methods are applied to the incoming argument value only after the slot's type test passed")
    cna = R.check_next_arg
    ATYPE, AVALUE, ADD = _cna_names(R)
    cfg = ctx.cfg(cna)
    vv = R.valid_value
    uses = []  # (node, slot text or None)
    helper_str_only = False
    if vv is not None:
        own = vv.params[1:] if vv.cls is not None and "staticmethod" not in vv.decorators else vv.params
        vparam = own[1] if len(own) > 1 else None
        for c in walk_no_nested(vv.node):
            if isinstance(c, ast.Call) and isinstance(c.func, ast.Attribute) and c.func.attr in STR_ONLY and isinstance(c.func.value, ast.Name) \
                    and c.func.value.id == vparam:
                helper_str_only = True
    for c in walk_no_nested(cna.node):
        if not isinstance(c, ast.Call) or not isinstance(c.func, ast.Attribute):
            continue
        if helper_str_only and vv is not None and c.func.attr == vv.name and len(c.args) >= 2 and norm(c.args[1]) == AVALUE:
            uses.append((c, norm(c.args[0])))
        elif c.func.attr in STR_ONLY and isinstance(c.func.value, ast.Name) and c.func.value.id == AVALUE:
            uses.append((c, None))
    n = 0
    for c, slot in uses:
        def typed(fc, slot=slot):
            e, pol = fact_atom(fc)
            cp = cmp_parts(e)
            if cp and cp[1] in ("In", "NotIn") and norm(cp[0]) == ATYPE and "type" in norm(cp[2]) and (slot is None or slot in norm(cp[2])):
                return (cp[1] == "In") == pol
            if isinstance(e, ast.Call) and "valid_type" in (call_name(e) or "") and len(e.args) == 2 and norm(e.args[0]) == ATYPE \
                    and (slot is None or slot in norm(e.args[1])):
                return pol is True
            if cp and norm(cp[0]) == ATYPE and cp[1] in ("Eq", "NotEq") and const_value(ctx.program, cna, cp[2]) in ("string", "tag", "number"):
                return (cp[1] == "Eq") == pol
            return False
        # a use inside a condition: the operands to its left in the same and-chain guard it too
        if any(typed_expr(e, pol, ATYPE, slot, ctx, cna) for e, pol in expr_guards(c)):
            n += 1
            ctx.holds("X14", "%s: %s guarded in the same expression" % (cna.qualname, norm(c)[:50]))
            continue
        nodes = cfg.node_containing(c)
        n += 1
        if nodes and all(cfg.guarded(x, typed) for x in nodes):
            ctx.holds("X14", "%s: %s behind the type test of %s" % (cna.qualname, norm(c)[:50], slot or "the slot"))
        else:
            ctx.violation("X14", cna, "str-method-before-type-test:%s" % (slot or norm(c)[:30]), "%s is evaluated although the type test of the "
                          "slot has not passed: for a string list or a test given as value it applies a str method to a list / Command"
                          % norm(c)[:60], node=c, witness="`if size [\"1\"] {}`: AttributeError escapes parse()")
    ctx.need("X14", "str-only uses of the incoming value", n, 2)


def typed_expr(e, pol, ATYPE, slot, ctx, cna):
    e, pol = _atom(e, pol)
    cp = cmp_parts(e)
    if cp and cp[1] in ("In", "NotIn") and norm(cp[0]) == ATYPE and "type" in norm(cp[2]) and (slot is None or slot in norm(cp[2])):
        return (cp[1] == "In") == pol
    if isinstance(e, ast.Call) and "valid_type" in (call_name(e) or "") and len(e.args) == 2 and norm(e.args[0]) == ATYPE:
        return pol is True
    return False


# ------------------------------------------------------------------------------- T4 / X8
def t4(ctx, R, rule="T4"):
    ctx.rule(rule, "every module-level name the lookup scheme can produce is a concrete command, or the lookup rejects it before attribute access")
    lk = R.lookup
    cfg = ctx.cfg(lk)
    # names the scheme can produce: "<Xxx>Command" with Xxx = identifier.lower().capitalize()
    import re as _re
    cands = []
    mod = R.cmod
    names = set(mod.classes) | set(mod.funcs) | set(mod.assigns) | set(mod.imports)
    for nm in sorted(names):
        if _re.fullmatch(r"[A-Z_][a-z0-9_]*Command", nm) or _re.fullmatch(r"[a-z0-9_]+Command", nm):
            cands.append(nm)
    ctx.need(rule, "registry names matching the lookup scheme", len(cands), 25)
    table = R.table()
    # which protections does the lookup apply before touching the class?
    guards = {"in-namespace": False, "is-command-subclass": False, "has-args-definition": False}
    raises = [r for r in walk_no_nested(lk.node) if isinstance(r, ast.Raise) and raise_name(r) == "UnknownCommand"]
    for fc in cfg.facts():
        e, pol = fact_atom(fc)
        t = norm(e)
        leads = any(any(x in cfg.reach(fc, exc=False) for x in cfg.nodes_for(r)) for r in raises)
        if not leads:
            continue
        if isinstance(e, ast.Compare) and ("not in" in t or " in " in t):
            guards["in-namespace"] = True
        if "issubclass" in t and "Command" in t:
            guards["is-command-subclass"] = True
        if "hasattr" in t and "args_definition" in t:
            guards["has-args-definition"] = True
    # an explicit registry: what its writers test before storing a class holds for every class the lookup can find, and a
    # `.get()` answered None (or a failed membership test) that leads to UnknownCommand is the in-namespace rejection
    ns_kind, ns_name = R.command_namespace()
    if ns_kind == "registry":
        stores = []
        for g in mod.all_funcs():
            for st_ in walk_no_nested(g.node):
                if isinstance(st_, ast.Assign) and any(isinstance(t_, ast.Subscript) and isinstance(t_.value, ast.Name) and t_.value.id == ns_name
                                                       for t_ in st_.targets):
                    stores.append((g, st_))
        direct = [st_ for st_ in mod.tree.body if isinstance(st_, ast.Assign) and any(
            isinstance(t_, ast.Subscript) and isinstance(t_.value, ast.Name) and t_.value.id == ns_name for t_ in st_.targets)]
        lit = mod.assigns.get(ns_name)
        if not stores or direct or (isinstance(lit, ast.Dict) and lit.keys):
            raise AnalysisError(rule, "command registry %s: writers not recognised (filled by a literal or at module level)" % ns_name)
        for gname, test in (("is-command-subclass", lambda t: "issubclass" in t and "Command" in t),
                            ("has-args-definition", lambda t: "hasattr" in t and "args_definition" in t)):
            ok_all = True
            for g, st_ in stores:
                cg = ctx.cfg(g)
                val = norm(st_.value)

                def holds(fc, test=test, val=val):
                    e, pol = fact_atom(fc)
                    t = norm(e)
                    return pol is True and test(t) and val in t
                if not all(cg.guarded(x, holds) for x in cg.nodes_for(st_)):
                    ok_all = False
            if ok_all:
                guards[gname] = True
        for fc in cfg.facts():
            e, pol = fact_atom(fc)
            cp = cmp_parts(e)
            if cp and cp[1] in ("Is", "IsNot") and isinstance(cp[2], ast.Constant) and cp[2].value is None \
                    and any(any(x in cfg.reach(fc, exc=False) for x in cfg.nodes_for(r)) for r in raises):
                guards["in-namespace"] = True
        ctx.holds(rule, "commands are kept in the registry %s; %d store(s), each behind: %s" % (
            ns_name, len(stores), ", ".join(k for k, v in guards.items() if v) or "nothing"))
    # first attribute access on the looked-up class must be dominated by the rejection tests
    bad = []
    for nm in cands:
        c = mod.classes.get(nm)
        concrete = c is not None and nm in table and not table[nm]["abstract"] and table[nm].get("_type") is not None
        if concrete:
            continue
        is_cmd_sub = c is not None and ctx.program.is_subclass(c, "Command")
        # hasattr(args_definition) only rejects the intermediate classes while the base class does not give the attribute a value
        base_defines = nm in table and table[nm].get("inherits_base_definition")
        rejected = (not is_cmd_sub and guards["is-command-subclass"]) or (is_cmd_sub and guards["has-args-definition"] and not base_defines)
        if not rejected:
            bad.append(nm)
    if bad:
        for nm in bad:
            ctx.violation(rule, lk, "registry-name:%s" % nm, "the identifier `%s` resolves to %s, which is not a concrete command, and the "
                          "lookup does not reject it" % (nm.replace("Command", "").lower(), nm), node=lk.node,
                          witness="`%s;` is accepted as a command, or makes parse() raise AttributeError" % nm.replace("Command", "").lower())
    else:
        ctx.holds(rule, "%d names producible by the scheme: all concrete commands or rejected (%s)" % (
            len(cands), ", ".join(k for k, v in guards.items() if v)))
    # the namespace is indexed only after the name was found present (else KeyError escapes for every unknown command)
    gvars = {t.id for a in walk_no_nested(lk.node) if isinstance(a, ast.Assign) and isinstance(a.value, ast.Call) and call_name(a.value) == "globals"
             for t in a.targets if isinstance(t, ast.Name)}
    subs = [s_ for s_ in walk_no_nested(lk.node) if isinstance(s_, ast.Subscript) and isinstance(s_.ctx, ast.Load) and (
        (isinstance(s_.value, ast.Name) and s_.value.id in gvars) or (isinstance(s_.value, ast.Call) and call_name(s_.value) == "globals"))]

    def present(e, pol):
        e, pol = _atom(e, pol)
        cp = cmp_parts(e)
        return bool(cp and cp[1] in ("In", "NotIn") and ((cp[1] == "In") == pol))
    unguarded = []
    for s_ in subs:
        if any(present(e, pol) for e, pol in expr_guards(s_)):
            continue
        nodes = cfg.node_containing(s_)
        if nodes and all(cfg.guarded(x, lambda fc: present(fc.expr, fc.pol)) for x in nodes):
            continue
        unguarded.append(s_)
    if unguarded:
        ctx.violation(rule, lk, "registry-indexed-before-membership", "the command namespace is indexed (%s) before the name was found present"
                      % norm(unguarded[0]), node=unguarded[0], witness="`foo;` (any unknown command) makes parse() raise KeyError")
    else:
        ctx.holds(rule, "namespace indexed only after the membership test (%d sites)" % len(subs))
    # positive control: a synthetic abstract class must be classified as non-concrete
    if all(table.get(x, {}).get("abstract") is True for x in ("ControlCommand", "ActionCommand", "TestCommand") if x in table) is False:
        raise AnalysisError(rule, "positive control failed: intermediate classes not recognised as abstract")


# ------------------------------------------------------------------------------- X9
def x9(ctx, R):
    ctx.rule("X9", "%-format arity matches the operand")
    import re as _re
    n = 0
    for f in R.reachable():
        for b in walk_no_nested(f.node):
            if isinstance(b, ast.BinOp) and isinstance(b.op, ast.Mod) and isinstance(b.left, ast.Constant) \
                    and isinstance(b.left.value, (str, bytes)):
                fmt = b.left.value if isinstance(b.left.value, str) else b.left.value.decode("latin-1")
                specs = len(_re.findall(r"%(?!%)", fmt.replace("%%", "")))
                n += 1
                if isinstance(b.right, ast.Tuple):
                    got = len(b.right.elts)
                elif isinstance(b.right, ast.Dict):
                    continue
                else:
                    got = 1
                if got == specs:
                    ctx.holds("X9", "%s: %r %% %d operand(s)" % (f.qualname, fmt[:30], got))
                else:
                    ctx.violation("X9", f, "format-arity:%s" % fmt[:30], "format %r takes %d value(s) but gets %d: TypeError when the message is built"
                                  % (fmt, specs, got), node=b)
    # the template itself must be program text: run-time text in it (a token, a name) may contain `%`
    from sa.template import template, holes
    for f in R.reachable():
        for b in walk_no_nested(f.node):
            if isinstance(b, ast.BinOp) and isinstance(b.op, ast.Mod) and not isinstance(b.left, ast.Constant):
                t = template(b.left)
                if t is not None and holes(t):
                    n += 1
                    ctx.violation("X9", f, "format-template-from-data:%s" % norm(holes(t)[0].expr)[:30], "the %%-template %s contains run-time text "
                                  "(%s): a `%%` in that text is read as a conversion and building the message raises ValueError/TypeError"
                                  % (norm(b.left)[:60], norm(holes(t)[0].expr)[:30]), node=b,
                                  witness='`stop "50% done";` : the error message cannot be built and the exception escapes parse()')
    # messages built with str.format / f-strings have no arity to get wrong; they count as message sites
    other = 0
    for f in R.reachable():
        for b in walk_no_nested(f.node):
            if isinstance(b, ast.JoinedStr) or (isinstance(b, ast.Call) and isinstance(b.func, ast.Attribute) and b.func.attr == "format"
                                                 and isinstance(b.func.value, ast.Constant)):
                if template(b) is not None:
                    other += 1
                elif isinstance(b, ast.Call):
                    ctx.violation("X9", f, "format-fields:%s" % norm(b)[:40], "str.format fields of %s do not match its arguments: IndexError/KeyError "
                                  "when the message is built" % norm(b)[:60], node=b)
    ctx.need("X9", "message-building sites", n + other, 6)


# ------------------------------------------------------------------------------- X10
def x10(ctx, R):
    ctx.rule("X10", "the state-function slot is called only on the not-None edge")
    f = R.command
    cfg = ctx.cfg(f)
    slot = None
    calls = []
    for c in walk_no_nested(f.node):
        if isinstance(c, ast.Call) and isinstance(c.func, ast.Attribute) and isinstance(c.func.value, ast.Name) \
                and c.func.value.id == f.params[0] and c.func.attr not in f.cls.methods and R.an("cstate") in c.func.attr:
            calls.append(c)
    if not calls:
        raise AnalysisError("X10", "call through the state-function slot not found")
    for c in calls:
        t = norm(c.func)

        def notnone(fc):
            e, pol = fact_atom(fc)
            cp = cmp_parts(e)
            if cp and norm(cp[0]) == t and isinstance(cp[2], ast.Constant) and cp[2].value is None:
                return (cp[1] == "Is" and pol is False) or (cp[1] == "IsNot" and pol is True)
            return norm(e) == t and pol is True
        nodes = cfg.node_containing(c)
        if nodes and all(cfg.guarded(x, notnone) for x in nodes):
            ctx.holds("X10", "%s: %s only when the slot is set" % (f.qualname, norm(c)))
        else:
            ctx.violation("X10", f, "slot-none-call", "%s may be called while the slot is None" % norm(c), node=c,
                          witness="TypeError: 'NoneType' object is not callable escapes parse()")
    # the slot is only ever assigned None or a bound state function
    for g in R.Parser.methods.values():
        for a in walk_no_nested(g.node):
            if isinstance(a, ast.Assign) and any(isinstance(x, ast.Attribute) and R.an("cstate") in x.attr for x in a.targets):
                v = a.value
                ok = (isinstance(v, ast.Constant) and v.value is None) or (
                    isinstance(v, ast.Attribute) and isinstance(v.value, ast.Name) and v.attr in R.Parser.methods
                    and len(R.Parser.methods[v.attr].params) == 3)
                if ok:
                    ctx.holds("X10", "%s: %s" % (g.qualname, norm(a)))
                else:
                    ctx.violation("X10", g, "slot-value:%s" % norm(v), "the state slot is assigned %s, not None or a (ttype, tvalue) state function"
                                  % norm(v), node=a)


# ------------------------------------------------------------------------------- X13
def x13(ctx, R):
    """str(e) runs inside the handler: whatever __str__ raises escapes parse().  The stored attributes come from constructor arguments whose
    type differs from raise site to raise site (a string, a list, a Command), so only operations total on every object are accepted."""
    from sa.template import template, holes
    ctx.rule("X13", "exception messages are built with total operations only (they are formatted below the funnel)")
    tr, caught = funnel(ctx, R, "X13")
    if not any(isinstance(c, ast.Call) and call_name(c) in ("str", "repr", "format") or isinstance(c, (ast.JoinedStr, ast.BinOp))
               for h in tr.handlers for c in walk_no_nested(h)):
        ctx.notice("X13", "the handler does not format the exception")
        return
    n = 0
    for c in ctx.program.all_classes():
        if c.module.name not in ("parser", "commands") or not any(is_caught(ctx, x.name, caught) for x in ctx.program.mro(c)):
            continue
        f = ctx.program.method(c, "__str__")
        if f is None or f.cls is None or f.cls.module.name not in ("parser", "commands"):
            continue
        if f.cls is not c and "__str__" not in c.methods:
            continue
        n += 1
        sn = f.params[0]
        bad = []

        def is_attr(e):
            return isinstance(e, ast.Attribute) and isinstance(e.value, ast.Name) and e.value.id == sn

        def total(e):
            if isinstance(e, ast.Constant) or is_attr(e):
                return True
            if isinstance(e, ast.Tuple):
                return all(total(x) for x in e.elts)
            if isinstance(e, ast.Call) and isinstance(e.func, ast.Name) and e.func.id in ("str", "repr") and len(e.args) == 1 and not e.keywords:
                return total(e.args[0])
            t = template(e)
            if t is None:
                return False
            # %s / %r / {} / {!s} / {!r} accept any object; a numeric conversion or a format spec does not
            return all(h.spec is None and h.conv in (None, "s", "r", "a") and total(h.expr) for h in holes(t))
        for st in f.node.body:
            if isinstance(st, ast.Expr) and isinstance(st.value, ast.Constant):
                continue
            if isinstance(st, ast.Return) and st.value is not None and total(st.value):
                continue
            bad.append(st)
        if not bad:
            ctx.holds("X13", "%s: built from stored attributes with %%s / str.format / f-string only" % f.qualname)
        else:
            ctx.violation("X13", f, "partial-message-op", "%s builds its message with an operation that can raise on some stored value (%s): it runs "
                          "inside parse()'s handler, so the exception escapes parse()" % (f.qualname, norm(bad[0])[:80]), node=bad[0],
                          witness="a raise site that stores a list or a Command in the attribute makes parse() raise AttributeError/TypeError")
    ctx.need("X13", "caught exception classes with their own message", n, 4)



def _scan_text_name(tr):
    for x in ast.walk(tr):
        if isinstance(x, ast.For) and isinstance(x.iter, ast.Call) and call_name(x.iter) == "scan" and x.iter.args and isinstance(x.iter.args[0], ast.Name):
            return x.iter.args[0].id
    return None


_TOTAL_BYTES = {"find", "rfind", "count", "strip", "rstrip", "lstrip", "startswith", "endswith", "splitlines", "lower", "upper", "replace"}


def _total_bytes_call(c, text):
    """c is a method call that cannot raise: a searching / trimming method of the script text (bytes) or of a slice / trimmed part of
    it, with constant or integer arguments, or .decode(<codec>, 'replace' | 'ignore') of such a value."""
    if text is None or not isinstance(c.func, ast.Attribute) or c.keywords:
        return False

    def rooted(e):
        if isinstance(e, ast.Name):
            return e.id == text
        if isinstance(e, ast.Subscript) and isinstance(e.slice, ast.Slice):
            return rooted(e.value)
        if isinstance(e, ast.Call) and isinstance(e.func, ast.Attribute) and e.func.attr in ("strip", "rstrip", "lstrip", "lower", "upper", "replace"):
            return rooted(e.func.value) and _total_bytes_call(e, text)
        return False

    def plain(a):
        return not any(isinstance(x, (ast.Call, ast.Await, ast.Yield, ast.Starred)) for x in ast.walk(a)) and not (
            isinstance(a, ast.Constant) and not isinstance(a.value, (bytes, int)))
    if not rooted(c.func.value):
        return False
    if c.func.attr == "decode":
        return len(c.args) == 2 and isinstance(c.args[0], ast.Constant) and c.args[0].value in ("utf-8", "utf8", "latin-1", "ascii") \
            and isinstance(c.args[1], ast.Constant) and c.args[1].value in ("replace", "ignore", "backslashreplace")
    return c.func.attr in _TOTAL_BYTES and all(plain(a) for a in c.args)


# ------------------------------------------------------------------------------- X11
def x11(ctx, R):
    ctx.rule("X11", "verdict shape: handler sets error ('line %d: ...') and error_pos (line, column, length) and returns False; else True")
    tr, caught = funnel(ctx, R, "X11")
    f = R.parse
    for h in tr.handlers:
        errs = [a for a in walk_no_nested(h) if isinstance(a, ast.Assign) and any(isinstance(t, ast.Attribute) and t.attr == "error" for t in a.targets)]
        poss = [a for a in walk_no_nested(h) if isinstance(a, ast.Assign) and any(isinstance(t, ast.Attribute) and t.attr == "error_pos" for t in a.targets)]
        rets = [r for r in walk_no_nested(h) if isinstance(r, ast.Return)]
        okp = bool(poss) and all(isinstance(a.value, ast.Tuple) and len(a.value.elts) == 3 for a in poss)
        if okp:
            def local_value(e, h=h):
                if isinstance(e, ast.Name):
                    ds = [a for a in walk_no_nested(h) if isinstance(a, ast.Assign) and len(a.targets) == 1 and isinstance(a.targets[0], ast.Name)
                          and a.targets[0].id == e.id]
                    if len(ds) == 1 and ds[0].lineno <= e.lineno:
                        return ds[0].value
                return e
            e0, e1, e2 = [local_value(x) for x in poss[0].value.elts]
            from .c18 import position_source
            raw = poss[0].value.elts
            # the VALUES of the three components are rule Z3 of C18; here: a triple whose length component is a len()
            okp = isinstance(e2, ast.Call) and call_name(e2) == "len"
        from sa.template import template, Lit, Hole

        def line_prefixed(v):
            t = template(v)
            return bool(t) and len(t) >= 3 and isinstance(t[0], Lit) and t[0].v == "line " and isinstance(t[1], Hole) and t[1].spec in (None, "d") \
                and t[1].conv in (None, "d", "s") and isinstance(t[2], Lit) and str(t[2].v).startswith(": ")
        oke = bool(errs) and all(line_prefixed(a.value) for a in errs)
        okr = bool(rets) and all(const_value(ctx.program, f, r.value) is False for r in rets if r.value is not None) and all(r.value is not None for r in rets)
        if okp and oke and okr:
            ctx.holds("X11", "%s: handler assigns error_pos=(line, column, length), error='line %%d: ...' and returns False" % f.qualname)
        else:
            ctx.violation("X11", f, "verdict-shape", "the funnel's handler does not produce the documented verdict (error_pos 3-tuple: %s, error text: %s, "
                          "return False: %s)" % (okp, oke, okr), node=h)
        # calls in the handler that may raise: only the two position helpers, len, str
        for c in walk_no_nested(h):
            if isinstance(c, ast.Call):
                cn = call_name(c)
                if cn == "format" and isinstance(c.func, ast.Attribute) and isinstance(c.func.value, ast.Constant) and template(c) is not None:
                    continue  # message building: fields match the arguments (else X9 reports it)
                from .c18 import position_helpers
                debug_print = isinstance(c.func, ast.Attribute) and isinstance(c.func.value, ast.Name) and c.func.value.id == f.params[0] \
                    and ("print" in (cn or "") or "debug" in (cn or "").lower() or "trace" in (cn or "").lower())
                if cn not in ("len", "str", "isinstance", "repr", "int", "bool", "type") and not debug_print and cn not in position_helpers(R) \
                        and not _total_bytes_call(c, _scan_text_name(tr)):
                    ctx.violation("X11", f, "handler-call:%s" % cn, "the handler calls %s, which may raise outside the funnel" % norm(c)[:50], node=c)
    last = f.node.body[-1]
    if isinstance(last, ast.Return) and const_value(ctx.program, f, last.value) is True:
        ctx.holds("X11", "%s: the only other exit is `return True`" % f.qualname)
    else:
        ctx.violation("X11", f, "final-return", "parse() does not end with `return True`", node=last)
    # result is (re)initialised as a list by the reset, which precedes the try
    rs = [a for a in walk_no_nested(R.reset.node) if isinstance(a, ast.Assign) and any(isinstance(t, ast.Attribute) and t.attr == "result" for t in a.targets)]
    if rs and all(isinstance(a.value, ast.List) for a in rs):
        ctx.holds("X11", "%s initialises result as a list" % R.reset.qualname)
    else:
        ctx.violation("X11", R.reset, "result-init", "the reset does not initialise `result` as a list", node=R.reset.node)
    # line/column helpers: 1 <= line <= 1 + newlines - the positions a (possibly reused) lexer reports are those of the text at hand
    try:
        from .c18 import lexer_eval
        lev = lexer_eval(ctx, R)
    except RecursionError:
        lev = None
    if lev is not None and lev[0] == "bad":
        ctx.violation("X11", R.scan, "model:lexer-position", "for the text %r: %s" % (lev[1], lev[2]), node=R.scan.node,
                      witness="`line N:` with N outside 1 .. 1 + the number of newlines of the input")
    elif lev is not None:
        ctx.holds("X11", "the line reported at %d yields / lexical errors of sample texts (also on a reused lexer) is the line of the current token"
                  % lev[1])
    ln = R.Lexer.methods.get("curlineno")
    if ln is not None:
        rets = [r for r in walk_no_nested(ln.node) if isinstance(r, ast.Return)]
        t = norm(rets[0].value) if rets else ""
        if "count(b'\\n'" in t and ("+ 1" in t or "1 +" in t):
            ctx.holds("X11", "curlineno = 1 + count of newlines in a prefix of the input")
        elif not any(isinstance(r_, ast.Raise) for r_ in walk_no_nested(ln.node)):
            ctx.holds("X11", "curlineno is computed by %s (its value is rule Z2 of C18; it raises nothing of its own)" % t[:40])
        else:
            ctx.violation("X11", ln, "lineno-formula", "curlineno is %s, not 1 + number of newlines before the position" % t, node=ln.node)


# ------------------------------------------------------------------------------- X17
def x17(ctx, R):
    """The funnel's handler runs after ANY statement of the try body raised - possibly the first one.  A local it reads must therefore
    be bound before the try (or by the handler itself): a local bound only inside the try body is unbound when the very first token is
    already unreadable, and UnboundLocalError is not one of the exceptions parse() turns into a verdict."""
    import builtins
    ctx.rule("X17", "locals read by the funnel's handler are bound before the try")
    tr, _caught = funnel(ctx, R, "X17")
    f = R.parse
    body = f.node.body
    before = set(f.params)
    top = None
    for st in body:
        if st is tr or any(x is tr for x in ast.walk(st)):
            top = st
            break
        for x in ast.walk(st):
            if isinstance(x, ast.Name) and isinstance(x.ctx, ast.Store):
                # bound on every path only when the binding statement is not nested under a condition / loop
                p_ = getattr(x, "_parent", None)
                cond = False
                while p_ is not None and p_ is not f.node:
                    if isinstance(p_, (ast.If, ast.For, ast.While, ast.Try, ast.With)) and type(p_).__name__ != "InlineBlock":
                        cond = True
                    p_ = getattr(p_, "_parent", None)
                if not cond:
                    before.add(x.id)
    # ... or by the first statements of the try body, as long as they only bind constants (nothing before them can raise)
    from .c13 import _cannot_raise
    for st in tr.body:
        if not _cannot_raise(st):
            break
        for x in ast.walk(st):
            if isinstance(x, ast.Name) and isinstance(x.ctx, ast.Store):
                before.add(x.id)
    module_names = set(f.module.assigns) | set(f.module.imports) | set(f.module.funcs) | set(f.module.classes) | set(dir(builtins))
    in_try = {x.id for b_ in tr.body for x in ast.walk(b_) if isinstance(x, ast.Name) and isinstance(x.ctx, ast.Store)}
    n = 0
    for h in tr.handlers:
        own = {h.name} if h.name else set()
        for st in h.body:
            for x in ast.walk(st):
                if isinstance(x, ast.Name) and isinstance(x.ctx, ast.Store):
                    own.add(x.id)
        for st in h.body:
            for x in ast.walk(st):
                if isinstance(x, ast.Name) and isinstance(x.ctx, ast.Load) and x.id not in before and x.id not in own and x.id not in module_names:
                    n += 1
                    if x.id in in_try:
                        ctx.violation("X17", f, "handler-reads-unbound:%s" % x.id, "the funnel's handler reads the local `%s`, which is bound only "
                                      "inside the try body: when the first statement that raises comes before that binding, the handler itself "
                                      "raises UnboundLocalError" % x.id, node=x,
                                      witness="a script whose very first byte is no token (a BOM, `$`): parse() raises UnboundLocalError")
    if not any(fd_.rule == "X17" for fd_ in ctx.findings):
        ctx.holds("X17", "%s: every local the handler reads is a parameter, bound before the try, or bound by the handler" % f.qualname)


# ------------------------------------------------------------------------------- X16
def x16(ctx, R):
    """parse() accepts str as well as bytes (it converts at the top); whatever it does later with its own parameter that only bytes
    can do (`.decode(...)` of a slice when it builds a message) needs that conversion on every path."""
    ctx.rule("X16", "bytes-only operations on parse()'s text parameter are preceded by the str -> bytes conversion of that parameter")
    f = R.parse
    if len(f.params) < 2:
        return
    text = f.params[1]

    def rooted(e):
        while isinstance(e, (ast.Subscript, ast.Attribute, ast.Call)):
            e = e.value if not isinstance(e, ast.Call) else e.func
        return isinstance(e, ast.Name) and e.id == text
    uses = [c for c in walk_no_nested(f.node) if isinstance(c, ast.Call) and isinstance(c.func, ast.Attribute) and c.func.attr == "decode"
            and rooted(c.func.value)]
    if not uses:
        ctx.holds("X16", "%s applies no bytes-only operation to %s" % (f.qualname, text))
        return
    cfg = ctx.cfg(f)
    conv = [st for st in walk_no_nested(f.node) if isinstance(st, ast.Assign) and any(isinstance(t, ast.Name) and t.id == text for t in st.targets)
            and isinstance(st.value, ast.Call) and isinstance(st.value.func, ast.Attribute) and st.value.func.attr == "encode" and rooted(st.value.func.value)]
    conv_if = [getattr(st, "_parent", None) for st in conv]
    conv_if = [i_ for i_ in conv_if if isinstance(i_, ast.If) and isinstance(i_.test, ast.Call) and call_name(i_.test) == "isinstance"
               and i_.test.args and isinstance(i_.test.args[0], ast.Name) and i_.test.args[0].id == text]
    heads = [x for i_ in conv_if for x in cfg.nodes_for(i_)]
    for c in uses:
        nodes = cfg.node_containing(c)
        if heads and all(cfg.dominates(heads, nd, exc=False) for nd in nodes):
            ctx.holds("X16", "%s: %s after `if isinstance(%s, str): %s = %s.encode(...)`" % (f.qualname, norm(c)[:40], text, text, text))
        else:
            ctx.violation("X16", f, "bytes-op-on-str:%s" % norm(c.func.value)[:40], "%s applies .decode() to (a slice of) its parameter %s, which is still "
                          "a str when the caller passed one: no `if isinstance(%s, str): %s = %s.encode(...)` precedes it"
                          % (f.qualname, text, text, text, text), node=c,
                          witness="parse('keep ];') raises AttributeError: 'str' object has no attribute 'decode'")


# ------------------------------------------------------------------------------- X15
def x15(ctx, R):
    """The position functions rescan the text up to the current offset (one pass each): called once per token they make parsing
    quadratic.  Outside the funnel's handler they may only run under the debug switch."""
    ctx.rule("X15", "linear rescans of the text (curlineno / curcolno) are not performed per token: only in the handler or under `debug`")
    from .c18 import position_helpers
    helpers = position_helpers(R)
    tr, _caught = funnel(ctx, R, "X15")
    n = 0
    bad = 0
    for f in [R.parse] + [g for g in R.reachable() if g.cls is R.Parser and g is not R.parse]:
        cfg = None
        for c in walk_no_nested(f.node):
            if not (isinstance(c, ast.Call) and isinstance(c.func, ast.Attribute) and c.func.attr in helpers and "lexer" in norm(c.func.value)):
                continue
            # inside an exception handler: once per rejected script
            p_ = getattr(c, "_parent", None)
            inh = False
            while p_ is not None and p_ is not f.node:
                if isinstance(p_, ast.ExceptHandler):
                    inh = True
                p_ = getattr(p_, "_parent", None)
            if inh:
                continue
            n += 1
            cfg = cfg or ctx.cfg(f)

            def debug_on(fc):
                e, pol = fact_atom(fc)
                return isinstance(e, ast.Attribute) and "debug" in e.attr.lower() and pol is True
            nodes = cfg.node_containing(c)
            if nodes and all(cfg.guarded(x, debug_on) for x in nodes):
                continue
            bad += 1
            ctx.violation("X15", f, "rescan-per-token:%s" % c.func.attr, "%s calls %s outside the error handler and not under the debug switch: every "
                          "token rescans the text before it, parsing time grows with the square of the script size" % (f.qualname, norm(c)[:40]),
                          node=c, witness="a 200 KB script takes tens of times longer than eight 25 KB ones")
    if not bad:
        ctx.holds("X15", "%d calls of the position functions outside the handler, each under the debug switch" % n if n else
                  "the position functions are called only in the funnel's handler")


# ------------------------------------------------------------------------------- L7
def l7(ctx, R, rule="L7"):
    ctx.rule(rule, "no polynomial / exponential backtracking shape in any lexer rule")
    for name, pat in R.lrules:
        try:
            P = R.pattern(name)
        except rx.Undecidable as e:
            ctx.notice(rule, "rule %s not analysable: %s" % (name, e))
            continue
        issues = rx.polynomial_backtracking(P)
        if issues:
            ctx.violation(rule, "Parser.lrules", "backtracking:%s" % name, "lexer rule %s (%r): %s" % (name, pat, "; ".join(issues)),
                          file=R.pmod.relpath, line=R.Parser.node.lineno,
                          witness="input `%s` followed by N newlines takes time quadratic in N" % name)
        else:
            ctx.holds(rule, "rule %s: no super-linear shape" % name)


# ------------------------------------------------------------------------------- X12
def x12(ctx, R):
    ctx.rule("X12", "parse_file reads the file as bytes and hands them to parse() unchanged")
    f = R.Parser.methods.get("parse_file")
    if f is None:
        ctx.notice("X12", "Parser.parse_file not found")
        return
    opens = [c for c in walk_no_nested(f.node) if isinstance(c, ast.Call) and call_name(c) == "open"]
    ok_mode = False
    for c in opens:
        mode = const_value(ctx.program, f, c.args[1]) if len(c.args) > 1 else None
        for k in c.keywords:
            if k.arg == "mode":
                mode = const_value(ctx.program, f, k.value)
        if isinstance(mode, str) and "b" in mode and "r" in mode and not any(k.arg in ("encoding", "newline", "errors") for k in c.keywords):
            ok_mode = True
        else:
            ctx.violation("X12", f, "text-mode-open", "parse_file opens the script with mode %r: decoding happens outside parse()'s error handling "
                          "and universal newlines change the positions" % (mode,), node=c,
                          witness="a file that is not valid UTF-8 makes parse_file raise UnicodeDecodeError")
    reads_bytes = any(isinstance(c, ast.Call) and call_name(c) in ("read_bytes",) for c in walk_no_nested(f.node))
    calls = [c for c in walk_no_nested(f.node) if isinstance(c, ast.Call) and call_name(c) == "parse"]
    direct = bool(calls) and all(len(c.args) == 1 and isinstance(c.args[0], ast.Call) and call_name(c.args[0]) in ("read", "read_bytes") for c in calls)
    if (ok_mode or reads_bytes) and direct:
        ctx.holds("X12", "%s: open(..., 'rb') and parse(fp.read())" % f.qualname)
    elif not any(x.rule == "X12" for x in ctx.findings):
        ctx.violation("X12", f, "bytes-not-passed", "parse_file does not pass the raw bytes of the file to parse()", node=f.node)
    rets = [r for r in walk_no_nested(f.node) if isinstance(r, ast.Return)]
    if rets and all(isinstance(r.value, ast.Call) and call_name(r.value) == "parse" for r in rets):
        ctx.holds("X12", "parse_file returns parse()'s verdict")
    else:
        ctx.violation("X12", f, "verdict-not-returned", "parse_file does not return parse()'s verdict", node=f.node)
