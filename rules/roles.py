"""Role discovery: the slots of the rule templates are filled from the
repository itself (which method reads the socket, which attribute is the
buffer, which function is the registry lookup ...).  A role that cannot be
filled makes the rule fail closed (AnalysisError -> exit 2)."""
import ast

from sa.model import AnalysisError, walk_no_nested, norm, mangle, is_self_call, call_name
from sa.util import ClassGraph, attr_calls, decorator_names, self_calls


class ClientRoles:
    def __init__(self, ctx, rule="roles"):
        p = ctx.program
        self.program = p
        self.cls = p.cls("Client", "managesieve")
        if self.cls is None:
            raise AnalysisError(rule, "class Client not found in managesieve.py")
        self.module = self.cls.module
        self.graph = ClassGraph(p, self.cls)
        m = self.cls.methods
        self.methods = m
        # socket effects
        self.recv_sites = {}  # method name -> [call nodes]
        self.send_sites = {}
        for name, f in m.items():
            r = attr_calls(f.node, "recv") + attr_calls(f.node, "recv_into") + attr_calls(f.node, "read") \
                + attr_calls(f.node, "makefile") + attr_calls(f.node, "recvfrom")
            r = [c for c in r if self._on_sock(c)]
            if r:
                self.recv_sites[name] = r
            s = [c for c in attr_calls(f.node, "sendall") + attr_calls(f.node, "send") + attr_calls(f.node, "write")
                 + attr_calls(f.node, "sendto") + attr_calls(f.node, "sendmsg") if self._on_sock(c)]
            if s:
                self.send_sites[name] = s
        # also module-level functions / other classes touching a socket
        self.foreign_recv = []
        self.foreign_send = []
        for f in p.all_funcs():
            if f.module.name != "managesieve" or (f.cls is self.cls):
                continue
            for c in attr_calls(f.node, "recv"):
                self.foreign_recv.append((f, c))
            for c in attr_calls(f.node, "sendall") + attr_calls(f.node, "send"):
                self.foreign_send.append((f, c))
        self.sock_attr = self._sock_attr()
        # a bound method of the socket kept in a variable / attribute outlives the socket it belongs to
        self.stored_socket_methods = []
        for f in m.values():
            for a in walk_no_nested(f.node):
                if isinstance(a, ast.Attribute) and a.attr in ("sendall", "send", "recv") and isinstance(a.value, ast.Attribute) \
                        and a.value.attr == "sock" and not (isinstance(getattr(a, "_parent", None), ast.Call) and a._parent.func is a):
                    self.stored_socket_methods.append((f, a))
        if self.stored_socket_methods and hasattr(ctx, "violation"):
            f, a = self.stored_socket_methods[0]
            ctx.rule("A5", "TLS upgrade: True only after wrap_socket and socket replacement; non-OK reply returns False before wrapping; "
                           "nothing keeps using the plain socket afterwards")
            ctx.violation("A5", f, "socket-method-kept:%s" % a.attr, "%s keeps the bound method %s: after STARTTLS replaces the socket it still "
                          "reads / writes the plain connection" % (f.qualname, norm(a)), node=a,
                          witness="connect(starttls=True): AUTHENTICATE with the credentials is written in clear on the TCP socket after the handshake")
        self._rule = rule
        # readers: the block reader passes one of its parameters to recv; the
        # line reader searches the CRLF delimiter.  Other recv callers fill no
        # role (ownership rule M1 reports them).
        self.block_reader = None
        self.line_reader = None
        for name in sorted(self.recv_sites):
            f = m[name]
            params = f.params[1:]
            if params and self.block_reader is None:
                self.block_reader = f
        for name in sorted(self.recv_sites):
            f = m[name]
            if f is self.block_reader:
                continue
            if self._mentions_delimiter(f) and self.line_reader is None:
                self.line_reader = f
        if self.block_reader is None or self.line_reader is None:
            raise AnalysisError(rule, "cannot identify the line reader and the block reader among recv callers %s"
                                % sorted(self.recv_sites))
        # assembler: calls both readers
        cands = [n for n in m if self.line_reader.name in self.graph.edges[n]
                 and self.block_reader.name in self.graph.edges[n]
                 and n not in (self.line_reader.name, self.block_reader.name)]
        # prefer the one that handles the Literal/Response signals (it may reach the block reader through a helper)
        self.assembler = None
        handlers = [n for n in m if n not in (self.line_reader.name, self.block_reader.name)
                    and self.line_reader.name in self.graph.edges[n]
                    and self.block_reader.name in self.graph.reach_from([n])
                    and any(isinstance(x, ast.ExceptHandler) and x.type is not None and self.program.cls(
                        x.type.id if isinstance(x.type, ast.Name) else "") is not None for x in ast.walk(m[n].node))]
        for n in handlers or cands:
            if any(isinstance(x, ast.ExceptHandler) for x in ast.walk(m[n].node)):
                self.assembler = m[n]
        if self.assembler is None and cands:
            self.assembler = m[cands[0]]
        if self.assembler is None:
            raise AnalysisError(rule, "cannot identify the response assembler (caller of both readers)")
        # command sender: writes to the socket (itself or through private helpers) and then reads the reply through the assembler
        readers = (self.line_reader.name, self.block_reader.name, self.assembler.name)
        cands = []
        for n in m:
            if n in readers or self.assembler.name not in self.graph.edges[n]:
                continue
            reach = self.graph.reach_from([n])
            direct = n in self.send_sites
            via = [x for x in reach if x in self.send_sites and x != n and x.startswith("_")]
            if direct or via:
                cands.append((0 if direct else 1, -len(self.send_sites.get(n, [])), n))
        if cands:
            self.sender = m[sorted(cands)[0][2]]
        else:
            self.sender = self._one(self.send_sites, rule, "command sender (method calling sendall)")
        # buffer attribute: self attribute accumulated from recv in the line reader
        self.buffer_attr = self._buffer_attr(rule)
        # guard decorator
        self.guard = None
        for fn in self.module.funcs.values():
            inner = [n for n in fn.node.body if isinstance(n, ast.FunctionDef)]
            if inner and any(isinstance(n, ast.Attribute) and n.attr == "authenticated" for n in ast.walk(fn.node)):
                self.guard = fn
        # error parser: method writing errcode that is called from the line reader
        self.error_parser = None
        for n in self.graph.edges[self.line_reader.name]:
            f = m[n]
            if any(isinstance(x, ast.Attribute) and isinstance(x.ctx, ast.Store) and x.attr in ("errcode", "errmsg")
                   for x in ast.walk(f.node)):
                self.error_parser = f
        self.error_parser_inline = False
        if self.error_parser is None and any(isinstance(x, ast.Attribute) and isinstance(x.ctx, ast.Store) and x.attr in ("errcode", "errmsg")
                                             for x in ast.walk(self.line_reader.node)):
            # the error text is decoded inside the line reader itself
            self.error_parser = self.line_reader
            self.error_parser_inline = True
        # formatter: called from the sender, iterates its argument list
        self.formatter = None
        cands_f = []
        for n in self.graph.edges[self.sender.name]:
            f = m[n]
            if n in (self.assembler.name, self.line_reader.name, self.block_reader.name):
                continue
            own = f.params if "staticmethod" in f.decorators else f.params[1:]
            if any(isinstance(x, (ast.For, ast.ListComp)) for x in ast.walk(f.node)) and len(own) >= 1:
                # the formatter is the one whose result becomes part of the line that is written (a helper that loops over the
                # arguments to describe them in a trace does not)
                score = 0
                for c in walk_no_nested(self.sender.node):
                    if isinstance(c, ast.Call) and isinstance(c.func, ast.Attribute) and c.func.attr == n:
                        p_ = getattr(c, "_parent", None)
                        joined = False
                        while p_ is not None and not isinstance(p_, ast.stmt):
                            if isinstance(p_, ast.Call) and isinstance(p_.func, ast.Attribute) and p_.func.attr == "join":
                                joined = True
                            p_ = getattr(p_, "_parent", None)
                        if joined:
                            score += 10
                        elif isinstance(p_, ast.Assign) and len(p_.targets) == 1 and isinstance(p_.targets[0], ast.Name):
                            v_ = p_.targets[0].id
                            if any(isinstance(j, ast.Call) and isinstance(j.func, ast.Attribute) and j.func.attr == "join" and any(
                                    isinstance(x, ast.Name) and x.id == v_ for a_ in j.args for x in ast.walk(a_)) for j in walk_no_nested(self.sender.node)):
                                score += 10
                cands_f.append((score, f))
        if cands_f:
            self.formatter = sorted(cands_f, key=lambda t: -t[0])[0][1] if any(sc for sc, _ in cands_f) else cands_f[-1][1]
        # literal builder: returns a bytes template containing "{%d+}" / "{" ... "+}"
        self.literal_builder = None
        for n, f in m.items():
            for x in ast.walk(f.node):
                if isinstance(x, ast.Constant) and isinstance(x.value, bytes) and b"{%d" in x.value:
                    if f is not self.sender:
                        self.literal_builder = f
        # compiled regex attributes: attr(mangled) -> (pattern, flags, node)
        self.regex_attrs = self._regex_attrs()

    def _on_sock(self, call):
        v = call.func.value
        t = norm(v)
        return "sock" in t or isinstance(v, ast.Name)

    def _sock_attr(self):
        for f in self.methods.values():
            for n in ast.walk(f.node):
                if isinstance(n, ast.Assign) and isinstance(n.value, ast.Call) and \
                        call_name(n.value) == "create_connection":
                    for t in n.targets:
                        if isinstance(t, ast.Attribute):
                            return t.attr
        return "sock"

    def _mentions_delimiter(self, f):
        for n in ast.walk(f.node):
            if isinstance(n, ast.Name) and n.id == "CRLF":
                return True
            if isinstance(n, ast.Constant) and n.value == b"\r\n":
                return True
        return False

    def _mentions_param(self, call, params):
        for a in call.args:
            for n in ast.walk(a):
                if isinstance(n, ast.Name) and n.id in params:
                    return True
        return False

    def _one(self, d, rule, what):
        if len(d) == 0:
            raise AnalysisError(rule, "no %s found" % what)
        if len(d) > 1:
            # more than one: the role is filled by the one with most sites; the
            # ownership rule (W1/M1) reports the others
            name = sorted(d, key=lambda k: -len(d[k]))[0]
        else:
            name = next(iter(d))
        return self.methods[name]

    def _buffer_attr(self, rule):
        f = self.line_reader
        selfname = f.params[0]
        cands = {}
        recv_vars = {t.id for a in walk_no_nested(f.node) if isinstance(a, ast.Assign) and isinstance(a.value, ast.Call)
                     and call_name(a.value) == "recv" for t in a.targets if isinstance(t, ast.Name)}
        # a local standing for the attribute's (mutable) object: `buf = self.__read_buffer` ... `buf += data`
        alias = {}
        for a in walk_no_nested(f.node):
            if isinstance(a, ast.Assign) and len(a.targets) == 1 and isinstance(a.targets[0], ast.Name) and isinstance(a.value, ast.Attribute) \
                    and isinstance(a.value.value, ast.Name) and a.value.value.id == selfname:
                alias[a.targets[0].id] = a.value.attr

        def is_recv(v):
            return (isinstance(v, ast.Name) and v.id in recv_vars) or (isinstance(v, ast.Call) and call_name(v) == "recv")
        for n in walk_no_nested(f.node):
            if isinstance(n, ast.AugAssign) and isinstance(n.target, ast.Name) and n.target.id in alias and is_recv(n.value):
                cands[alias[n.target.id]] = cands.get(alias[n.target.id], 0) + 12
            if isinstance(n, ast.Call) and isinstance(n.func, ast.Attribute) and n.func.attr in ("extend", "append") and n.args and is_recv(n.args[0]):
                tgt = n.func.value
                if isinstance(tgt, ast.Name) and tgt.id in alias:
                    cands[alias[tgt.id]] = cands.get(alias[tgt.id], 0) + 12
                elif isinstance(tgt, ast.Attribute) and isinstance(tgt.value, ast.Name) and tgt.value.id == selfname:
                    cands[tgt.attr] = cands.get(tgt.attr, 0) + 12
            if isinstance(n, ast.AugAssign) and isinstance(n.target, ast.Attribute) and isinstance(n.target.value, ast.Name) \
                    and n.target.value.id == selfname:
                cands[n.target.attr] = cands.get(n.target.attr, 0) + 2
                v = n.value
                if (isinstance(v, ast.Name) and v.id in recv_vars) or (isinstance(v, ast.Call) and call_name(v) == "recv"):
                    cands[n.target.attr] += 10  # what recv() returns is accumulated there
            elif isinstance(n, ast.Assign):
                for t in n.targets:
                    if isinstance(t, ast.Attribute) and isinstance(t.value, ast.Name) and t.value.id == selfname:
                        cands[t.attr] = cands.get(t.attr, 0) + 1
        if not cands:
            raise AnalysisError(rule, "line reader %s keeps no buffer attribute" % f.qualname)
        return mangle(self.cls.name, sorted(cands, key=lambda k: -cands[k])[0])

    def _regex_attrs(self):
        out = {}
        from sa.consteval import Evaluator, TOP
        # patterns shared by all instances: compiled in the class body
        ev = Evaluator(self.program, self.module, self.cls)
        for n in self.cls.node.body:
            if isinstance(n, (ast.Assign, ast.AnnAssign)) and isinstance(n.value, ast.Call) and call_name(n.value) == "compile" \
                    and isinstance(n.value.func, ast.Attribute) and norm(n.value.func.value) == "re":
                pat = ev.eval(n.value.args[0]) if n.value.args else TOP
                flags = 0
                for a in n.value.args[1:]:
                    flags |= regex_flags(a)
                for k in n.value.keywords:
                    if k.arg == "flags":
                        flags |= regex_flags(k.value)
                for t in (n.targets if isinstance(n, ast.Assign) else [n.target]):
                    if isinstance(t, ast.Name):
                        out[mangle(self.cls.name, t.id)] = (pat, flags, n)
        for f in self.methods.values():
            ev = Evaluator(self.program, self.module, self.cls)
            for n in walk_no_nested(f.node):
                if isinstance(n, ast.Assign) and isinstance(n.value, ast.Call) and call_name(n.value) == "compile" \
                        and isinstance(n.value.func, ast.Attribute) and norm(n.value.func.value) == "re":
                    pat = ev.eval(n.value.args[0]) if n.value.args else TOP
                    flags = 0
                    for a in n.value.args[1:]:
                        flags |= regex_flags(a)
                    for k in n.value.keywords:
                        if k.arg == "flags":
                            flags |= regex_flags(k.value)
                    for t in n.targets:
                        if isinstance(t, ast.Attribute):
                            out[mangle(self.cls.name, t.attr)] = (pat, flags, n)
                # a pattern compiled where it is used (module-level constants are put back in place by the normalisation pass)
                if isinstance(n, ast.Call) and call_name(n) == "compile" and isinstance(n.func, ast.Attribute) and norm(n.func.value) == "re" \
                        and isinstance(getattr(n, "_parent", None), ast.Attribute):
                    pat = ev.eval(n.args[0]) if n.args else TOP
                    flags = 0
                    for a in n.args[1:]:
                        flags |= regex_flags(a)
                    if isinstance(pat, (bytes, str)):
                        out[self._inline_key(pat, flags)] = (pat, flags, n)
        return out

    def const_env(self, sn="self"):
        """{"<sn>.<attr>": fd.Const(value)} for what a fresh Client holds: compiled patterns, class-level constants and the attributes
        that __init__ sets to constants (bytearray() / bytes() / {} / [] included).  For rules that interpret methods over samples."""
        import re
        from sa import fd
        from sa.consteval import Evaluator, TOP
        from sa.util import const_value
        base = {}
        for a, (pat, flags, _n) in self.regex_attrs.items():
            if isinstance(pat, (bytes, str)) and not a.startswith("<re:"):
                try:
                    cp = re.compile(pat, flags)
                except re.error:
                    continue
                short = a[len("_" + self.cls.name):] if a.startswith("_" + self.cls.name + "__") else a
                for nm in {a, short}:
                    base["%s.%s" % (sn, nm)] = fd.Const(cp)
        ev = Evaluator(self.program, self.module, self.cls)
        for a_, v_ in self.cls.attrs.items():
            cv_ = ev.eval(v_)
            if cv_ is not TOP and isinstance(cv_, (int, str, bytes, bool)):
                base.setdefault("%s.%s" % (sn, a_), fd.Const(cv_))
        init = self.methods.get("__init__")
        if init is not None:
            for st_ in walk_no_nested(init.node):
                if isinstance(st_, ast.Assign) and len(st_.targets) == 1 and isinstance(st_.targets[0], ast.Attribute) \
                        and isinstance(st_.targets[0].value, ast.Name) and st_.targets[0].value.id == init.params[0]:
                    k = "%s.%s" % (sn, st_.targets[0].attr)
                    v = const_value(self.program, init, st_.value)
                    if v is not TOP and isinstance(v, (int, str, bytes, bool, type(None))):
                        base.setdefault(k, fd.Const(v))
                    elif isinstance(st_.value, (ast.List, ast.Dict)) and not getattr(st_.value, "elts", getattr(st_.value, "keys", [])):
                        base.setdefault(k, fd.Const([] if isinstance(st_.value, ast.List) else {}))
                    elif isinstance(st_.value, ast.Call) and isinstance(st_.value.func, ast.Name) and st_.value.func.id in ("bytearray", "bytes") \
                            and not st_.value.args:
                        base.setdefault(k, fd.Const(bytearray() if st_.value.func.id == "bytearray" else b""))
        return base

    @staticmethod
    def _inline_key(pat, flags):
        return "<re:%r/%d>" % (pat, flags)

    def attr(self, name):
        return mangle(self.cls.name, name)

    def pattern_of(self, expr, func):
        """If expr denotes a compiled regex attribute (self.__x_expr) return
        (mangled attr, pattern, flags)."""
        if isinstance(expr, ast.Attribute) and isinstance(expr.value, ast.Name):
            a = mangle(self.cls.name, expr.attr)
            if a in self.regex_attrs:
                pat, flags, _ = self.regex_attrs[a]
                return a, pat, flags
        if isinstance(expr, ast.Call) and call_name(expr) == "compile" and isinstance(expr.func, ast.Attribute) and norm(expr.func.value) == "re":
            from sa.consteval import Evaluator
            pat = Evaluator(self.program, self.module, self.cls).eval(expr.args[0]) if expr.args else None
            flags = 0
            for a_ in expr.args[1:]:
                flags |= regex_flags(a_)
            k = self._inline_key(pat, flags)
            if k in self.regex_attrs:
                return k, pat, flags
        return None


def regex_flags(e):
    import re
    names = {"M": re.M, "MULTILINE": re.M, "I": re.I, "IGNORECASE": re.I, "S": re.S, "DOTALL": re.S,
             "X": re.X, "VERBOSE": re.X, "A": re.A, "ASCII": re.A, "L": re.L, "LOCALE": re.L, "U": re.U, "UNICODE": re.U}
    if isinstance(e, ast.Attribute) and e.attr in names:
        return names[e.attr]
    if isinstance(e, ast.BinOp) and isinstance(e.op, ast.BitOr):
        return regex_flags(e.left) | regex_flags(e.right)
    if isinstance(e, ast.Constant) and isinstance(e.value, int):
        return e.value
    return 0
