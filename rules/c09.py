"""C09 - Operation results mirror the server's status reply.

Q1 OK/NO mapping of every status-comparing function (finite-domain), Q2 status
recogniser, Q3 nullable regex groups, Q4 reply-tail coverage of the error
parser, Q5 writers of errcode/errmsg.
"""
import ast

from sa import rx, fd
from sa.model import AnalysisError, walk_no_nested, norm, mangle, call_name, stmt_of
from sa.util import (self_calls, fact_atom, const_value, raise_name, attr_writes, cmp_parts, const_str, eq_const_fact,
                     contains)
from sa.consteval import TOP
from .roles import ClientRoles
from .c10 import status_paths
from ref import ms_spec


def status_comparing(f):
    for n in walk_no_nested(f.node):
        if isinstance(n, ast.Compare):
            for x in [n.left] + n.comparators:
                if isinstance(x, ast.Constant) and x.value in ("OK", "NO", "BYE", b"OK", b"NO", b"BYE"):
                    return True
    return False


def run(ctx):
    R = ClientRoles(ctx, "Q")
    _demote_reader_spellings(ctx, R)
    ctx.explanation = (
        "(Q1) for every Client function that compares a reply's status code with a constant, path-sensitive constant "
        "propagation over code in {OK, NO}: the OK assignment reaches only success returns (True / the data), the NO "
        "assignment only failure returns (False / None), and no explicit raise follows a reply; (Q2) the status "
        "pattern's alternatives are exactly OK|NO|BYE (regex language equality), BYE leads to Error, NO to the error "
        "parser then Response, OK to Response, and the assembler stops reading on Response; (Q3) no capture group "
        "that the regex analysis proves optional is used as bytes without a None test, across the call into the "
        "error parser; (Q4) the RFC 5804 language of what may follow NO is included in the union of what the error "
        "parser's matchers accept before it may raise, and errcode and errmsg are both assigned on every normal "
        "path; (Q5) errcode/errmsg are written from server data only by the error parser.")
    ctx.not_decided = "the decoded *content* of errmsg (escapes inside quoted strings), OK-with-warnings text; server behaviour."
    ctx.assumptions = ["the command sender returns the status code as str 'OK'/'NO' (BYE raises in the line reader: Q2)"]
    G = R.graph

    # ---- Q1 ----------------------------------------------------------------------
    ctx.rule("Q1", "finite-domain evaluation of each status-comparing function over code in {OK, NO}")
    def returns_value(f):
        return any(isinstance(r, ast.Return) and r.value is not None and not (
            isinstance(r.value, ast.Constant) and r.value.value is None) for r in walk_no_nested(f.node))

    funcs = [f for n, f in R.methods.items() if self_calls(f, R.sender.name) and (status_comparing(f) or returns_value(f))]
    import json as _json, os as _os
    with open(_os.path.join(_os.path.dirname(_os.path.dirname(_os.path.abspath(__file__))), "ref", "known_functions.json")) as _fp:
        known_ops = set(_json.load(_fp)["names"].get("managesieve", {}).get("Client", []))
    ctx.need("Q1", "status-comparing functions", len(funcs), 12)
    for f in funcs:
        try:
            paths = status_paths(ctx, R, f)
        except fd.TooManyPaths:
            raise AnalysisError("Q1", "path explosion in %s" % f.qualname)
        bad = None
        n1 = 0
        for p in paths:
            if not p["codes"]:
                continue
            n1 += 1
            code = p["last_code"]
            if p["kind"] == "raise":
                if p["node"] is not None and isinstance(p["node"], ast.Raise):
                    bad = bad or ("raises %s after reply %s" % (p["value"], code), p)
                continue
            v = p["value"]
            t = fd.truth(v)
            if code == "OK" and t is False and len(p["codes"]) == 1 and f.name in known_ops and not (
                    isinstance(v, fd.Const) and v.v is not None and v.v is not False):
                # (an empty payload - '' for an empty script, [] for no script - is an answer, not a refusal)
                # (what an operation added later returns on success is its own business: only its NO answer is judged)
                bad = bad or ("returns %r although the reply is OK" % (getattr(v, "v", v),), p)
            if code == "NO" and not (isinstance(v, fd.Const) and not v.v):
                bad = bad or ("returns %r although the reply is NO" % (getattr(v, "v", v),), p)
        if n1 == 0:
            raise AnalysisError("Q1", "no path with a reply enumerated for %s" % f.qualname)
        if bad:
            msg, p = bad
            ctx.violation("Q1", f, "status-mapping", "%s %s" % (f.qualname, msg), node=p["node"] or f.node,
                          witness="server answers %s to %s" % (p["last_code"], f.name))
        else:
            ctx.holds("Q1", "%s: OK->success, NO->failure" % f.qualname, "%d reply paths" % n1)
        # constants compared with the code
        for n in walk_no_nested(f.node):
            if isinstance(n, ast.Compare) and len(n.ops) == 1 and isinstance(n.left, ast.Name) and n.left.id == "code":
                c = n.comparators[0]
                partial = any(isinstance(x, ast.Call) and call_name(x) == R.sender.name and any(k.arg == "nblines" for k in x.keywords)
                              for x in walk_no_nested(f.node))
                if isinstance(c, ast.Constant) and c.value is None and partial and isinstance(n.ops[0], (ast.Is, ast.IsNot)):
                    continue  # a reply read line by line (nblines): no status yet
                if isinstance(c, ast.Constant) and c.value not in ("OK", "NO"):
                    ctx.violation("Q1", f, "odd-status-constant:%r" % (c.value,), "status code compared with %r (sender codes are the "
                                  "str 'OK'/'NO')" % (c.value,), node=n)

    # ---- Q2 ----------------------------------------------------------------------
    ctx.rule("Q2", "status recogniser: alternatives exactly OK|NO|BYE; BYE->Error, NO->error parser+Response, OK->Response; "
                   "assembler stops on Response")
    lin = R.line_reader
    status_attr = None
    for a, (pat, flags, node) in R.regex_attrs.items():
        if isinstance(pat, bytes) and b"OK" in pat:
            status_attr = a
    if status_attr is None:
        raise AnalysisError("Q2", "status pattern not found")
    spat, sflags, snode = R.regex_attrs[status_attr]
    P = rx.Pattern(spat, sflags)
    from .c05 import group_byteset
    g1 = _group_sub(P, 1)
    if g1 is None:
        raise AnalysisError("Q2", "status pattern has no group 1")
    d = rx.language_diff(g1, rx.Pattern(ms_spec.STATUS_ATOMS))
    if d is None:
        ctx.holds("Q2", "status pattern %r: group 1 == OK|NO|BYE" % spat)
    else:
        ctx.violation("Q2", "Client.__init__", "status-atoms", "the status pattern's first group differs from OK|NO|BYE on %r" % (d[0],),
                      file=R.module.relpath, line=snode.lineno, witness="reply line %r" % (d[0] + b' "x"'))
    # the pattern must match at the start of the line (match, not search)
    cfg = ctx.cfg(lin)
    mcalls = [c for c in walk_no_nested(lin.node) if isinstance(c, ast.Call) and isinstance(c.func, ast.Attribute)
              and R.pattern_of(c.func.value, lin) and R.pattern_of(c.func.value, lin)[0] == status_attr]
    if not mcalls:
        raise AnalysisError("Q2", "line reader does not apply the status pattern")
    for c in mcalls:
        if c.func.attr != "match":
            ctx.violation("Q2", lin, "status-not-anchored", "the status pattern is applied with .%s (not anchored at the line start)"
                          % c.func.attr, node=c, witness='a script name line such as `"NOTES"` or `"x OK"` ends the reply')
    raises = [r for r in walk_no_nested(lin.node) if isinstance(r, ast.Raise)]

    def st_fact(atom, pol):
        def pred(fact):
            r = eq_const_fact(fact, lambda c: c in (atom, atom.decode()))
            return bool(r and r[2] is pol)
        return pred

    resp = [r for r in raises if raise_name(r) == "Response"]
    err = [r for r in raises if raise_name(r) == "Error" and any(cfg.guarded(n, st_fact(b"BYE", True)) for n in cfg.nodes_for(r))]
    if not resp:
        raise AnalysisError("Q2", "line reader never raises Response")
    if err:
        ctx.holds("Q2", "%s: BYE -> raise Error" % lin.qualname)
    else:
        ctx.violation("Q2", lin, "bye-not-error", "a BYE reply does not raise Error", node=lin.node,
                      witness="server answers BYE: the operation returns a value instead of raising Error")
    for r in resp:
        for n in cfg.nodes_for(r):
            if cfg.guarded(n, st_fact(b"BYE", False)):
                ctx.holds("Q2", "%s: Response only for OK/NO" % lin.qualname)
            else:
                ctx.violation("Q2", lin, "bye-as-response", "Response can be raised for a BYE reply", node=r)
    # types of the compared constants
    for n in walk_no_nested(lin.node):
        if isinstance(n, ast.Compare) and len(n.ops) == 1 and isinstance(n.comparators[0], ast.Constant) \
                and isinstance(n.comparators[0].value, str) and n.comparators[0].value in ("OK", "NO", "BYE") \
                and "group" in norm(n.left):
            ctx.violation("Q2", lin, "str-vs-bytes:%s" % n.comparators[0].value, "a bytes regex group is compared with the str %r "
                          "(never equal)" % n.comparators[0].value, node=n)
    if R.error_parser is None:
        raise AnalysisError("Q2", "error parser not identified")
    epcalls = self_calls(lin, R.error_parser.name) if not R.error_parser_inline else []
    if R.error_parser_inline:
        # the error text is decoded in the line reader itself: every NO reply must assign both attributes before Response
        for attr in ("errcode", "errmsg"):
            an = [x for x in cfg.stmt_nodes() if isinstance(x.ast, ast.Assign) and any(
                isinstance(t, ast.Attribute) and t.attr == attr for t in x.ast.targets)]
            for r in resp:
                for n in cfg.nodes_for(r):
                    if an and cfg.guarded(n, st_fact(b"NO", False), establish=lambda m, an=an: m in an):
                        ctx.holds("Q2", "%s: every NO reply assigns %s before Response" % (lin.qualname, attr))
                    else:
                        ctx.violation("Q2", lin, "no-skips-error-parser", "a NO reply can reach Response without %s being set" % attr,
                                      node=r, witness="after a NO the client still shows the previous error text")
            for x in an:
                if not cfg.guarded(x, st_fact(b"NO", True)):
                    ctx.violation("Q2", lin, "error-parser-unguarded", "%s is assigned for replies other than NO" % attr, node=x.ast)
    for c in epcalls:
        for n in cfg.node_containing(c):
            if cfg.guarded(n, st_fact(b"NO", True)):
                ctx.holds("Q2", "%s: NO -> error parser" % lin.qualname)
            elif cfg.guarded(n, st_fact(b"BYE", True)) and all(
                    isinstance(x.ast, ast.Raise) for x in cfg.reach([n], exc=False) if x.kind == "stmt" and isinstance(x.ast, (ast.Raise, ast.Return))) \
                    and any(isinstance(x.ast, ast.Raise) for x in cfg.reach([n], exc=False) if x.kind == "stmt"):
                # the reason given with a BYE is kept for the caller; the reply still ends in the Error the property asks for
                ctx.holds("Q2", "%s: BYE -> error parser, then raise" % lin.qualname)
            else:
                ctx.violation("Q2", lin, "error-parser-unguarded", "the error parser runs for replies other than NO", node=c)
    # NO must reach the error parser before Response
    for r in (resp if not R.error_parser_inline else []):
        for n in cfg.nodes_for(r):
            ep_nodes = [x for c in epcalls for x in cfg.node_containing(c)]
            # paths to Response avoiding the error parser must carry the fact NO == False
            if cfg.guarded(n, st_fact(b"NO", False), establish=lambda m: m in ep_nodes):
                ctx.holds("Q2", "%s: every NO reply passes the error parser before Response" % lin.qualname)
            else:
                ctx.violation("Q2", lin, "no-skips-error-parser", "a NO reply can reach Response without errcode/errmsg being set",
                              node=r, witness="after a NO the client still shows the previous error text")
    # assembler: Response handler leaves the loop without reading
    asm = R.assembler
    cfga = ctx.cfg(asm)
    hs = [h for h in ast.walk(asm.node) if isinstance(h, ast.ExceptHandler) and h.type is not None and "Response" in norm(h.type)]
    if not hs:
        ctx.violation("Q2", asm, "no-response-handler", "the response assembler does not stop on Response", node=asm.node)
    for h in hs:
        hn = cfga.nodes_for(h)
        reads = [x for c in self_calls(asm, lin.name) + self_calls(asm, R.block_reader.name) for x in cfga.node_containing(c)]
        r = cfga.reach(hn, exc=True)
        if any(x in r for x in reads):
            ctx.violation("Q2", asm, "reads-after-response", "after the final status line the assembler can read more from the server",
                          node=h, witness="the next command's reply is consumed as part of this one")
        else:
            ctx.holds("Q2", "%s: stops reading on Response" % asm.qualname)

    q34(ctx, R)

    # ---- multi-step operation: the emulated rename reports success iff every step was answered OK (rules R1, R5, R6 of C14)
    from .c14 import rename_rules
    rename_rules(ctx, R)

    # ---- Q7 ----------------------------------------------------------------------
    q7(ctx, R)
    q9(ctx, R)
    q10(ctx, R)
    # a reply that is cut differently by the network must still end at its own status line (M1-M6 of C05)
    from .c05 import reader_rules
    reader_rules(ctx, R)

    # ---- Q5 ----------------------------------------------------------------------
    ep = R.error_parser
    ctx.rule("Q5", "errcode/errmsg are written from server data only by the error parser (elsewhere: constants)")
    nw = 0
    for attr in ("errcode", "errmsg"):
        for f, node, kind, text in attr_writes(ctx.program, attr, modules=["managesieve"]):
            nw += 1
            if f is ep:
                continue
            st = stmt_of(node)
            v = const_value(ctx.program, f, st.value) if isinstance(st, (ast.Assign, ast.AnnAssign)) and st.value is not None else TOP
            if v is TOP and isinstance(st, ast.Assign) and isinstance(st.value, ast.Name):
                # a local that only ever holds constants (one per refusal reason)
                defs = [a.value for a in walk_no_nested(f.node) if isinstance(a, ast.Assign) and any(
                    isinstance(t, ast.Name) and t.id == st.value.id for t in a.targets)]
                if defs and all(const_value(ctx.program, f, d) is not TOP for d in defs):
                    v = None
            if v is TOP:
                ctx.violation("Q5", f, "errattr-written:%s" % attr, "%s is assigned a computed value outside the error parser: %s"
                              % (attr, norm(st)), node=node)
            else:
                ctx.holds("Q5", "%s: constant %s" % (f.qualname, norm(st)))
    ctx.need("Q5", "writes of errcode/errmsg", nw, 5)


def _demote_reader_spellings(ctx, R):
    """Q7 (how the error text is decoded) and Q8 (a literal as the text of an OK reply is consumed) describe one spelling of the line
    reader; when the evaluation of the readers followed them (a NO with non-ASCII text, OK (WARNINGS) {n} followed by the next reply)
    findings of these two rules INSIDE the readers are recorded, not reported."""
    from .c05 import m7_status
    if (m7_status(ctx, R) or ("",))[0] == "ok":
        covered = {f_.qualname for f_ in (R.line_reader, R.block_reader, R.assembler, R.error_parser) if f_ is not None}
        ctx.demote(("Q7", "Q8"), "the evaluation of the readers (M7)", only_in=covered)


def q34(ctx, R):
    _demote_reader_spellings(ctx, R)
    lin = R.line_reader
    from ref import ms_spec
    # ---- Q3 ----------------------------------------------------------------------
    ctx.rule("Q3", "a regex group proved optional is never used as bytes without a None test (followed into callees)")
    ng = 0
    for name, f in R.methods.items():
        for use in group_uses(R, f):
            pat_attr, gid, call = use
            pat, flags, _ = R.regex_attrs[pat_attr]
            try:
                nullable = gid in rx.nullable_groups(rx.Pattern(pat, flags))
            except rx.Undecidable as e:
                raise AnalysisError("Q3", "pattern %r: %s" % (pat, e))
            if not nullable:
                continue
            ng += 1
            v = none_unsafe_use(ctx, R, f, call)
            label = "%s: %s (group %d of %s)" % (f.qualname, norm(call), gid, pat_attr.split("__")[-1])
            if v is None:
                ctx.holds("Q3", label)
            else:
                where, what = v
                ctx.violation("Q3", f, "nullable-group:%s:%d->%s" % (pat_attr.split("_Client")[-1], gid, what),
                              "optional group %d of %r may be None but %s" % (gid, pat, where), node=call,
                              witness="reply line `NO` with nothing after it")
    ctx.need("Q3", "uses of optional groups", ng, 2)

    # ---- Q4 ----------------------------------------------------------------------
    ctx.rule("Q4", "RFC 5804 tail language after NO is covered by the error parser's matchers before any raise; both errcode and errmsg set")
    ep = R.error_parser
    cfge = ctx.cfg(ep)
    text_param = ep.params[1] if len(ep.params) > 1 else None
    if getattr(R, "error_parser_inline", False):
        # decoded in place: the tail is the variable the error pattern is applied to
        text_param = None
        for c in walk_no_nested(ep.node):
            if isinstance(c, ast.Call) and isinstance(c.func, ast.Attribute) and c.func.attr == "match" and c.args:
                pr = R.pattern_of(c.func.value, ep)
                if pr and proto_kind(pr[1]) not in ("size", "status", "active"):
                    text_param = norm(c.args[0])  # a variable, or the expression for the text after the status (m.group(2))
    if text_param is None:
        raise AnalysisError("Q4", "error parser takes no text parameter")
    T = rx.Pattern(ms_spec.NO_TAIL)
    inline_ep = getattr(R, "error_parser_inline", False)
    eraises = [r for r in walk_no_nested(ep.node) if isinstance(r, ast.Raise)]
    if inline_ep:
        # only the part of the line reader that handles a NO reply plays the error parser; its final `raise Response` is the
        # normal way out (rule Q2), any other raise there is judged
        def no_reply(fact):
            r_ = eq_const_fact(fact, lambda c: c in (b"NO", "NO"))
            return bool(r_ and r_[2] is True)
        eraises = [r for r in eraises if raise_name(r) != "Response" and any(cfge.guarded(x, no_reply) for x in cfge.nodes_for(r))]
    for r in eraises:
        # patterns whose failure guards this raise
        pats = []
        for n in walk_no_nested(ep.node):
            if isinstance(n, ast.Assign) and isinstance(n.value, ast.Call) and isinstance(n.value.func, ast.Attribute) \
                    and n.value.func.attr == "match" and n.lineno < r.lineno:
                pr = R.pattern_of(n.value.func.value, ep)
                if pr and n.value.args and norm(n.value.args[0]) == text_param:
                    pats.append(pr)
        if not pats:
            ctx.violation("Q4", ep, "tail-not-covered", "the error parser raises without having tried any pattern on the tail", node=r)
            continue
        union = b"|".join(b"(?:" + p[1] + rb")[\s\S]*" for p in pats)
        try:
            U = rx.Pattern(union, pats[0][2])
            d = rx.language_diff(T, U, mode="subset")
        except rx.Undecidable as e:
            raise AnalysisError("Q4", "cannot analyse %r: %s" % (union, e))
        if d is None:
            ctx.holds("Q4", "%s: raise at line %d unreachable for RFC tails" % (ep.qualname, r.lineno))
        else:
            ctx.violation("Q4", ep, "tail-not-covered", "an RFC 5804 NO reply whose tail is %r matches none of %s and raises %s"
                          % (d[0], [p[1] for p in pats], raise_name(r)), node=r,
                          witness="reply `NO %s`" % d[0].decode("latin-1"))
    if not eraises:
        # every matcher applied to the tail must accept all RFC tails or its failure must be handled
        ctx.holds("Q4", "%s has no raise: every tail yields a NO result" % ep.qualname)
    # the main matcher must capture code and text for every RFC tail: check that each pattern applied with .match on the
    # tail whose result is used unconditionally (group access not guarded by a None test on the match) accepts T
    for n in walk_no_nested(ep.node):
        if isinstance(n, ast.Assign) and isinstance(n.value, ast.Call) and isinstance(n.value.func, ast.Attribute) \
                and n.value.func.attr == "match" and isinstance(n.targets[0], ast.Name):
            pr = R.pattern_of(n.value.func.value, ep)
            if not pr or not n.value.args or norm(n.value.args[0]) != text_param:
                continue
            mvar = n.targets[0].id
            uses = [u for u in walk_no_nested(ep.node) if isinstance(u, ast.Attribute) and isinstance(u.value, ast.Name)
                    and u.value.id == mvar and u.lineno > n.lineno]

            def m_ok(fact, mvar=mvar):
                e, pol = fact_atom(fact)
                if isinstance(e, ast.Name) and e.id == mvar:
                    return pol is True
                cp = cmp_parts(e)
                if cp and isinstance(cp[0], ast.Name) and cp[0].id == mvar and isinstance(cp[2], ast.Constant) and cp[2].value is None:
                    return (cp[1] == "IsNot" and pol is True) or (cp[1] == "Is" and pol is False)
                return False

            unguarded = [u for u in uses if any(not cfge.guarded(x, m_ok) for x in cfge.node_containing(u))]
            if unguarded:
                PP = rx.Pattern(pr[1] + rb"[\s\S]*", pr[2])
                d = rx.language_diff(T, PP, mode="subset")
                e0 = rx.accepts_empty(rx.Pattern(pr[1], pr[2]))
                if d is not None:
                    ctx.violation("Q4", ep, "match-result-unchecked", "%s is used without a None test but %r does not match the RFC tail %r"
                                  % (mvar, pr[1], d[0]), node=unguarded[0], witness="reply `NO %s` -> AttributeError" % d[0].decode("latin-1"))
                elif not e0:
                    ctx.violation("Q4", ep, "match-result-unchecked-empty", "%s is used without a None test but %r does not match an empty tail"
                                  % (mvar, pr[1]), node=unguarded[0], witness="reply `NO`")
                else:
                    ctx.holds("Q4", "%s: %r accepts every RFC tail and the empty tail" % (ep.qualname, pr[1]))
    # every RFC tail is matched IN FULL by a pattern whose result is used unconditionally (a tail that is only partly matched
    # leaves its literal unread / its code unreported), and a literal text is recognised whether or not a code precedes it
    for n in walk_no_nested(ep.node):
        if isinstance(n, ast.Assign) and isinstance(n.value, ast.Call) and isinstance(n.value.func, ast.Attribute) \
                and n.value.func.attr == "match" and isinstance(n.targets[0], ast.Name):
            pr = R.pattern_of(n.value.func.value, ep)
            if not pr or not n.value.args:
                continue
            a0 = n.value.args[0]
            if proto_kind(pr[1]) == "size":
                # what is the size pattern applied to?
                if isinstance(a0, ast.Name) and a0.id == text_param:
                    # anchored at the start of the whole tail: a literal after a response code is never seen
                    others = [x for x in walk_no_nested(ep.node) if isinstance(x, ast.Call) and isinstance(x.func, ast.Attribute)
                              and x.func.attr in ("match", "search") and x is not n.value and R.pattern_of(x.func.value, ep)
                              and proto_kind(R.pattern_of(x.func.value, ep)[1]) == "size"]
                    if not others:
                        ctx.violation("Q4", ep, "literal-after-code", "the literal-size pattern is only applied to the whole text after NO (anchored at "
                                      "its start): `NO (CODE) {n}` is not recognised as carrying a literal", node=n,
                                      witness="`NO (QUOTA/MAXSCRIPTS) {16}` + 16 octets: errmsg is '{16}' and the 16 octets are read as the next reply")
                    continue
                ctx.holds("Q4", "literal size looked up in %s" % norm(a0))
                continue
            if not (isinstance(a0, ast.Name) and a0.id == text_param):
                continue
            try:
                d = rx.language_diff(T, rx.Pattern(pr[1], pr[2]), mode="subset")
            except rx.Undecidable as e:
                raise AnalysisError("Q4", "cannot analyse %r: %s" % (pr[1], e))
            if d is None:
                ctx.holds("Q4", "%r matches every RFC 5804 NO tail in full" % pr[1])
            else:
                ctx.violation("Q4", ep, "tail-partly-matched", "the error pattern %r cannot match the RFC 5804 tail %r in full: the unmatched rest "
                              "(response code / text / literal) is ignored" % (pr[1], d[0]), node=n,
                              witness="`NO %s`: errcode/errmsg wrong, and if the text is a literal its octets are read as the next reply" % d[0].decode("latin-1"))
    # ---- Q8: the text of ANY status reply may be a literal (RFC 5804: string = quoted / literal); its octets belong to this reply
    ctx.rule("Q8", "a literal sent as the text of a status reply is consumed before the reply is handed up (OK as well as NO)")
    cfgl = ctx.cfg(lin)
    resp_raises = [r for r in walk_no_nested(lin.node) if isinstance(r, ast.Raise) and raise_name(r) == "Response"]
    status_calls = [c for c in walk_no_nested(lin.node) if isinstance(c, ast.Call) and isinstance(c.func, ast.Attribute) and c.func.attr == "match"
                    and R.pattern_of(c.func.value, lin) and proto_kind(R.pattern_of(c.func.value, lin)[1]) == "status"]
    st_nodes = [x for c in status_calls for x in cfgl.node_containing(c)]
    # decision points "is the tail a literal?": size-pattern matches evaluated after the status line was recognised
    size_tests = []
    for c in walk_no_nested(lin.node):
        if isinstance(c, ast.Call) and isinstance(c.func, ast.Attribute) and c.func.attr in ("match", "search") and R.pattern_of(c.func.value, lin) \
                and proto_kind(R.pattern_of(c.func.value, lin)[1]) == "size":
            for x in cfgl.node_containing(c):
                if st_nodes and cfgl.dominates(st_nodes, x, exc=False):
                    size_tests.append(x)
    ep_nodes = [x for c in (self_calls(lin, ep.name) if not inline_ep else []) for x in cfgl.node_containing(c)]
    blk_calls = [x for c in self_calls(lin, R.block_reader.name) for x in cfgl.node_containing(c)]

    def no_text(fc):
        # "<some regex group> is None": there is no text, hence no literal
        e, pol = fact_atom(fc)
        cp = cmp_parts(e)
        if cp and isinstance(cp[2], ast.Constant) and cp[2].value is None:
            src = cp[0]
            if isinstance(src, ast.Name):
                ds = [a.value for a in walk_no_nested(lin.node) if isinstance(a, ast.Assign) and any(
                    isinstance(t, ast.Name) and t.id == src.id for t in a.targets)]
                src = ds[0] if len(ds) == 1 else src
            if ".group(" in norm(src):
                return (cp[1] == "Is" and pol is True) or (cp[1] == "IsNot" and pol is False)
        return False
    def is_no(fc):
        # the reply is NO on this edge: rule Q2 demands the error parser there, which reads the literal
        r_ = eq_const_fact(fc, lambda c: c in (b"NO", "NO"))
        return bool(r_ and r_[2] is True)
    size_tests = size_tests + list(cfgl.facts(no_text)) + list(cfgl.facts(is_no))
    for r in resp_raises:
        for n_ in cfgl.nodes_for(r):
            # every path from the status match to the raise passes the error parser or a "tail is a literal?" decision
            covered = (ep_nodes or size_tests) and all(
                n_ not in cfgl.reach([m_ for s_ in st_nodes for m_, _ in s_.succ], avoid=ep_nodes + size_tests, exc=False) for _ in [0])
            if covered and (not size_tests or blk_calls or inline_ep or ep_nodes):
                ctx.holds("Q8", "%s: every status reply passes the literal test (or the error parser) before Response" % lin.qualname)
            else:
                ctx.violation("Q8", lin, "status-literal-unread", "a status reply other than NO reaches Response without its text having been "
                              "tested for a literal: `OK (WARNINGS) {n}` leaves n octets in the buffer", node=r,
                              witness="putscript answered `OK (WARNINGS) {13}` + 13 octets: the next listscripts() reports a script named like the warning")
    # the response-code group ends at the first ")": otherwise a ")" in the human-readable text is swallowed into errcode
    ctx.rule("Q6", "the response-code group of the error pattern cannot extend past the first `)`")
    for n in walk_no_nested(ep.node):
        if isinstance(n, ast.Assign) and isinstance(n.value, ast.Call) and isinstance(n.value.func, ast.Attribute) and n.value.func.attr == "match":
            pr = R.pattern_of(n.value.func.value, ep)
            if not pr or b"\\(" not in pr[1].replace(b"\\\\", b""):
                continue
            try:
                PP = rx.Pattern(pr[1], pr[2])
                g1 = _group_sub(PP, 1)
            except rx.Undecidable as e:
                raise AnalysisError("Q6", str(e))
            if g1 is None:
                continue
            d = rx.language_diff(g1, rx.Pattern(rb"\([^)]*\)"), mode="subset")
            if d is None:
                ctx.holds("Q6", "code group of %r is `(` non-`)` `)`" % pr[1])
            else:
                ctx.violation("Q6", ep, "code-group-greedy", "the response-code group of %r can match %r: a `)` inside the text of a NO reply is "
                              "taken as the end of the code" % (pr[1], d[0]), node=n,
                              witness='`NO (QUOTA/MAXSIZE) "too large (limit 10)"`: errcode swallows the text, errmsg is empty')
    # both attributes set on every normal path (for the in-place form rule Q2 demands it on every NO path to Response)
    for attr in (("errcode", "errmsg") if not inline_ep else ()):
        stores = [x for x in cfge.stmt_nodes() if isinstance(x.ast, ast.Assign) and any(
            isinstance(t, ast.Attribute) and t.attr == attr for t in x.ast.targets)]
        if stores and cfge.dominates(stores, cfge.exit, exc=False):
            ctx.holds("Q4", "%s: %s assigned on every normal path" % (ep.qualname, attr))
        else:
            ctx.violation("Q4", ep, "attr-not-set:%s" % attr, "a NO reply can be processed without %s being (re)assigned: the previous "
                          "error's value is reported" % attr, node=ep.node)
    # code group covers the RFC code syntax, text group the quoted / literal forms: the error parser's first group must contain
    # the resp-code and nothing else for well-formed tails  (checked as: pattern group 1, when present, is '(' ... ')')


def q10(ctx, R):
    """Whether the text of a status line is a literal announcement ({n}) is decided on the token as the server sent it: a QUOTED text
    that happens to read "{5}" is text.  The size pattern must therefore not be applied to a value whose quotes were stripped."""
    ctx.rule("Q10", "the literal-size pattern is applied to the token as received, not to its unquoted content")
    n = 0
    for f in {R.line_reader, R.error_parser} - {None}:
        for c in walk_no_nested(f.node):
            if not (isinstance(c, ast.Call) and isinstance(c.func, ast.Attribute) and c.func.attr in ("match", "search", "fullmatch") and c.args):
                continue
            pr = R.pattern_of(c.func.value, f)
            if not pr or proto_kind(pr[1]) != "size":
                continue
            n += 1
            a = c.args[0]
            altered = None
            if isinstance(a, ast.Name):
                for d in walk_no_nested(f.node):
                    if isinstance(d, ast.Assign) and any(isinstance(t, ast.Name) and t.id == a.id for t in d.targets) and d.lineno < c.lineno:
                        for x in ast.walk(d.value):
                            if isinstance(x, ast.Call) and isinstance(x.func, ast.Attribute) and x.func.attr in ("strip", "lstrip", "rstrip", "replace"):
                                altered = x
            else:
                for x in ast.walk(a):
                    if isinstance(x, ast.Call) and isinstance(x.func, ast.Attribute) and x.func.attr in ("strip", "lstrip", "rstrip", "replace"):
                        altered = x
            if altered is not None:
                ctx.violation("Q10", f, "size-test-on-unquoted-text", "the size pattern is applied to %s, which went through %s: a quoted text "
                              "that reads like a size is taken for a literal announcement" % (norm(a)[:30], norm(altered)[:40]), node=c,
                              witness='`NO "{70000+} exceeds the maximum script size"`: the client waits for 70002 octets that never come')
            else:
                ctx.holds("Q10", "%s: %s" % (f.qualname, norm(c)[:60]))
    ctx.need("Q10", "applications of the size pattern", n, 2)


def q9(ctx, R):
    """A SASL exchange written step by step: once a reply carries a status (OK / NO) the exchange is over, and what the client sends
    next is read by the server as a new command.  A continuation line (a sender call whose command name is not a constant verb)
    that follows an earlier reply must lie behind the test that this reply was a challenge (its code is None)."""
    snd = R.sender
    cont_sites = []
    for f in R.methods.values():
        if not f.name.endswith("_authentication") or "digest" in f.name:
            continue  # (DIGEST-MD5 answers exactly one challenge and is not runnable in this tree: recorded finding U6)
        calls = sorted([c for c in walk_no_nested(f.node) if isinstance(c, ast.Call) and call_name(c) == snd.name], key=lambda c: c.lineno)
        if len(calls) < 2:
            continue
        cfg = ctx.cfg(f)
        for i, c in enumerate(calls[1:], 1):
            name_arg = bound_arg_plain(c, snd, snd.params[1]) if len(snd.params) > 1 else None
            if name_arg is not None and isinstance(const_value(ctx.program, f, name_arg), str) and const_value(ctx.program, f, name_arg).isupper():
                continue  # a new command, not a continuation
            prev = calls[i - 1]
            st = stmt_of(prev)
            code_var = None
            if isinstance(st, ast.Assign) and isinstance(st.targets[0], (ast.Tuple, ast.List)) and st.targets[0].elts \
                    and isinstance(st.targets[0].elts[0], ast.Name):
                code_var = st.targets[0].elts[0].id
            cont_sites.append((f, c))
            ctx.rule("Q9", "a SASL continuation line is sent only after a reply that was a challenge (no status yet)")

            def was_challenge(fc, code_var=code_var):
                e, pol = fact_atom(fc)
                cp = cmp_parts(e)
                return bool(code_var and cp and isinstance(cp[0], ast.Name) and cp[0].id == code_var and isinstance(cp[2], ast.Constant)
                            and cp[2].value is None and ((cp[1] == "Is") == pol))
            nodes = cfg.node_containing(c)

            def rebinds(node, code_var=code_var):
                from sa.cfg import assigned_names
                return node.ast is not None and not isinstance(node.ast, (ast.If, ast.While, ast.For, ast.Try)) and code_var in assigned_names(node.ast)
            if nodes and all(cfg.guarded(x, was_challenge, kill_pred=rebinds) for x in nodes):
                ctx.holds("Q9", "%s: %s only after a challenge" % (f.qualname, norm(c)[:50]))
            else:
                ctx.violation("Q9", f, "continuation-after-status", "%s sends %s although the previous reply may have carried a status: the "
                              "exchange was over, the server reads the line as a command" % (f.qualname, norm(c)[:50]), node=c,
                              witness="server answers NO to the user name: the password is sent anyway, and the NO to that stray line is "
                                      "taken for the result of the next operation")


def q7(ctx, R):
    _demote_reader_spellings(ctx, R)
    """RFC 5804: everything the server sends is UTF-8.  A reply decoded with a narrower codec makes an operation raise instead of
    returning the server's verdict."""
    ctx.rule("Q7", "server text is decoded as UTF-8 (directly or through a helper called with that codec)")
    prog = ctx.program

    def enc_ok(v):
        return v is TOP or (isinstance(v, str) and v.lower().replace("_", "-") in ("utf-8", "utf8"))
    n = 0
    for f in R.methods.values():
        for c in walk_no_nested(f.node):
            if not isinstance(c, ast.Call):
                continue
            if isinstance(c.func, ast.Attribute) and c.func.attr == "decode":
                n += 1
                enc = const_value(prog, f, c.args[0]) if c.args else next(
                    (const_value(prog, f, k.value) for k in c.keywords if k.arg == "encoding"), "utf-8")
                own_b64 = isinstance(c.func.value, ast.Call) and call_name(c.func.value) in ("b64encode", "hexlify", "hexdigest")
                if enc_ok(enc) or own_b64:  # (base64 / hex text produced here is ASCII whatever it encodes: not server data)
                    ctx.holds("Q7", "%s: %s" % (f.qualname, norm(c)[:50]))
                else:
                    ctx.violation("Q7", f, "reply-codec:%s" % enc, "%s decodes server data as %r" % (f.qualname, enc), node=c,
                                  witness='`NO "Quota d\u00e9pass\u00e9"` makes the operation raise UnicodeDecodeError instead of returning False')
                continue
            # a helper of the package that decodes with one of its parameters
            g = None
            if isinstance(c.func, ast.Attribute) and isinstance(c.func.value, ast.Name) and c.func.value.id in prog.modules:
                g = prog.modules[c.func.value.id].funcs.get(c.func.attr)
            elif isinstance(c.func, ast.Name):
                g = R.module.funcs.get(c.func.id)
            if g is None:
                continue
            for d in walk_no_nested(g.node):
                if isinstance(d, ast.Call) and isinstance(d.func, ast.Attribute) and d.func.attr == "decode" and d.args and isinstance(d.args[0], ast.Name) \
                        and d.args[0].id in g.params:
                    n += 1
                    a = bound_arg_plain(c, g, d.args[0].id)
                    enc = const_value(prog, f, a) if a is not None else const_value(prog, g, g.defaults().get(d.args[0].id)) if d.args[0].id in g.defaults() else TOP
                    if enc_ok(enc):
                        ctx.holds("Q7", "%s: %s decodes as %s" % (f.qualname, norm(c)[:40], enc))
                    else:
                        ctx.violation("Q7", f, "reply-codec:%s" % enc, "%s decodes server data with %s, whose codec here is %r" % (
                            f.qualname, norm(c)[:40], enc), node=c,
                            witness='`NO "Quota d\u00e9pass\u00e9"` makes the operation raise UnicodeDecodeError instead of returning False')
    ctx.need("Q7", "decode sites in the client", n, 3)


def bound_arg_plain(call, g, pname):
    """argument bound to parameter pname of the plain function g at this call (None: default)"""
    params = list(g.params)
    if pname in params:
        i = params.index(pname)
        if i < len(call.args):
            return call.args[i]
    for k in call.keywords:
        if k.arg == pname:
            return k.value
    return None


def proto_kind(pat):
    if isinstance(pat, bytes):
        if pat.startswith(rb"\{"):
            return "size"
        if b"OK" in pat:
            return "status"
    return None


def _group_sub(P, gid):
    from re import _constants as C

    def find(sub):
        for op, av in sub:
            if op is C.SUBPATTERN:
                if av[0] == gid:
                    return av[3]
                r = find(av[3])
                if r is not None:
                    return r
            elif op is C.BRANCH:
                for alt in av[1]:
                    r = find(alt)
                    if r is not None:
                        return r
            elif op in (C.MAX_REPEAT, C.MIN_REPEAT):
                r = find(av[2])
                if r is not None:
                    return r
        return None

    g = find(P.tree)
    return rx._subpattern(P, g) if g is not None else None


def group_uses(R, f):
    """(pattern attr, group id, call node) for every m.group(k) where m is the
    result of matching a known compiled pattern."""
    out = []
    defs = {}
    for n in walk_no_nested(f.node):
        if isinstance(n, ast.Assign) and isinstance(n.value, ast.Call) and isinstance(n.value.func, ast.Attribute) \
                and n.value.func.attr in ("match", "search", "fullmatch") and isinstance(n.targets[0], ast.Name):
            pr = R.pattern_of(n.value.func.value, f)
            if pr:
                defs.setdefault(n.targets[0].id, []).append((n.lineno, pr[0]))
    for n in walk_no_nested(f.node):
        if isinstance(n, ast.Call) and isinstance(n.func, ast.Attribute) and n.func.attr == "group" \
                and isinstance(n.func.value, ast.Name) and n.func.value.id in defs and n.args \
                and isinstance(n.args[0], ast.Constant) and isinstance(n.args[0].value, int):
            cands = [d for d in defs[n.func.value.id] if d[0] <= n.lineno]
            if cands:
                out.append((max(cands)[1], n.args[0].value, n))
    return out


def _none_guard_pred(expr_text):
    def pred(fact):
        e, pol = fact_atom(fact)
        if norm(e) == expr_text:
            return pol is True
        cp = cmp_parts(e)
        if cp and norm(cp[0]) == expr_text and isinstance(cp[2], ast.Constant) and cp[2].value is None:
            return (cp[1] == "IsNot" and pol is True) or (cp[1] == "Is" and pol is False)
        return False
    return pred


def none_unsafe_use(ctx, R, f, call):
    """call = m.group(k) with an optional group.  Returns None if every use is
    None-safe, else (description, key)."""
    parent = getattr(call, "_parent", None)
    cfg = ctx.cfg(f)
    text = norm(call)
    guard = _none_guard_pred(text)
    nodes = cfg.node_containing(call)
    guarded = bool(nodes) and all(cfg.guarded(n, guard) for n in nodes)
    # the None test itself
    if isinstance(parent, ast.Compare) and any(isinstance(c, ast.Constant) and c.value is None for c in parent.comparators):
        return None
    if isinstance(parent, (ast.If, ast.While, ast.BoolOp, ast.UnaryOp, ast.IfExp)):
        return None
    if guarded:
        return None
    if isinstance(parent, ast.Attribute):
        return ("%s is applied to it without a None test" % norm(parent), "method:" + parent.attr)
    if isinstance(parent, ast.Call) and call in parent.args:
        callee = parent.func
        idx = parent.args.index(call)
        if isinstance(callee, ast.Attribute) and isinstance(callee.value, ast.Name) and callee.value.id == f.params[0] \
                and callee.attr in R.methods:
            g = R.methods[callee.attr]
            params = g.params[1:]
            if idx < len(params):
                bad = param_none_unsafe(ctx, g, params[idx])
                if bad:
                    return ("it is passed to %s where %s" % (g.qualname, bad), g.name)
            return None
        if isinstance(callee, ast.Attribute) and callee.attr in ("match", "search", "fullmatch", "startswith", "endswith",
                                                                  "decode", "strip", "split"):
            return ("it is passed to %s" % norm(callee), "arg:" + callee.attr)
        if isinstance(callee, ast.Name) and callee.id in ("int", "len"):
            return ("it is passed to %s()" % callee.id, "arg:" + callee.id)
        return None  # constructor of an exception / storage: None is carried along
    return None


def param_none_unsafe(ctx, g, pname):
    """In function g, is parameter pname used as bytes on a path where it may
    still be None?  Returns description or None."""
    cfg = ctx.cfg(g)
    guard = _none_guard_pred(pname)

    def establish(node):
        # `pname = <non-None constant or expression>` re-binds it
        a = node.ast
        if node.kind == "stmt" and isinstance(a, ast.Assign) and any(isinstance(t, ast.Name) and t.id == pname for t in a.targets):
            return not (isinstance(a.value, ast.Constant) and a.value.value is None)
        return False

    for n in walk_no_nested(g.node):
        if isinstance(n, ast.Name) and n.id == pname and isinstance(n.ctx, ast.Load):
            par = getattr(n, "_parent", None)
            risky = None
            if isinstance(par, ast.Attribute):
                risky = "%s is applied" % norm(par)
            elif isinstance(par, ast.Call) and n in par.args and isinstance(par.func, ast.Attribute) \
                    and par.func.attr in ("match", "search", "fullmatch", "startswith", "endswith", "join"):
                risky = "%s(%s) is evaluated" % (norm(par.func), pname)
            elif isinstance(par, ast.Call) and n in par.args and isinstance(par.func, ast.Name) and par.func.id in ("len", "int"):
                risky = "%s(%s) is evaluated" % (par.func.id, pname)
            elif isinstance(par, ast.Subscript) and par.value is n:
                risky = "%s is subscripted" % pname
            elif isinstance(par, ast.BinOp):
                risky = "%s is used in %s" % (pname, norm(par))
            if risky is None:
                continue
            # inside `x if p is not None else y`
            q = par
            safe = False
            while q is not None and not isinstance(q, ast.stmt):
                if isinstance(q, ast.IfExp) and contains(q.body, n):
                    t = q.test
                    if norm(t) in (pname, "%s is not None" % pname):
                        safe = True
                if isinstance(q, ast.BoolOp) and isinstance(q.op, ast.Or) and q.values and norm(q.values[0]) == pname \
                        and not contains(q.values[0], n):
                    pass
                q = getattr(q, "_parent", None)
            if safe:
                continue
            nodes = cfg.node_containing(n)
            if not nodes or not all(cfg.guarded(x, guard, establish=establish) for x in nodes):
                return "%s while it may be None" % risky
    return None
