"""Reference token languages for the Sieve lexer (RFC 5228 section 8.1),
written independently of the repository's patterns, with the selection
discipline the tokenizer must realise ('longest' = maximal munch,
'shortest' = first possible end).  Leniencies of the supported language that
the pinned suite relies on are recorded here, not in the checker:

 * strings may contain bare CR/LF and NUL (RFC: any octet except NUL inside
   quoted-other... the tree is lenient; multi-line quoted strings are legal),
 * `text:` blocks: RFC 5228 wants only spaces/tabs or a hash comment after
   `text:`; the supported language takes anything up to the first line that
   consists of a single dot (optionally followed by CR).
"""

MULTILINE_FLAG = True   # patterns below are meant with re.MULTILINE ($ before LF)

# name -> (reference regex, discipline)
TOKENS = {
    "left_bracket": (rb"\[", "longest"),
    "right_bracket": (rb"\]", "longest"),
    "left_parenthesis": (rb"\(", "longest"),
    "right_parenthesis": (rb"\)", "longest"),
    "left_cbracket": (rb"\{", "longest"),
    "right_cbracket": (rb"\}", "longest"),
    "semicolon": (rb";", "longest"),
    "comma": (rb",", "longest"),
    # identifier = (ALPHA / "_") *(ALPHA / DIGIT / "_")
    "identifier": (rb"[A-Za-z_][A-Za-z0-9_]*", "longest"),
    # tag = ":" identifier
    "tag": (rb":[A-Za-z_][A-Za-z0-9_]*", "longest"),
    # number = 1*DIGIT [ QUANTIFIER ] ; QUANTIFIER = "K" / "M" / "G" (case-insensitive)
    "number": (rb"[0-9]+[KMGkmg]?", "longest"),
    # quoted-string = DQUOTE quoted-text DQUOTE ; backslash escapes any single octet except LF
    "string": (rb'"(?:[^"\\]|\\[^\n])*"', "longest"),
    # hash-comment = "#" *octet-not-crlf CRLF   (token = up to, not including, the line end)
    "hash_comment": (rb"#[^\n]*$", "longest"),
    # bracket-comment = "/*" *not-star-slash "*/"  (first "*/" ends it)
    "bracket_comment": (rb"/\*(?:[^*]|\*+[^*/])*\*+/", "shortest"),
    # multi-line = "text:" ... LF "." [CR] before a line end; first such line ends it
    "multiline": (rb"text:[\s\S]*?\n\.\r?$", "shortest"),
}
WHITESPACE = (rb"[ \t\r\n\x0b\x0c]+", "longest")

# required relative order wherever two rules can match at the same position
ORDER = ["left_bracket", "right_bracket", "left_parenthesis", "right_parenthesis", "left_cbracket", "right_cbracket",
         "semicolon", "comma", "hash_comment", "bracket_comment", "multiline", "string", "identifier", "tag", "number"]
