"""Reference facts about RFC 5804 (ManageSieve) used by the client rules.
Written independently of the repository's code; reviewed against the RFC."""

# status atoms the client must recognise at the start of a reply line
STATUS_ATOMS = rb"OK|NO|BYE"

# What may follow "NO" + spaces on the status line (RFC 5804 section 1.3 / 4:
#   response-no = "NO" [SP "(" resp-code ")"] [SP string] CRLF
#   resp-code   = atom-with-slashes [SP extension-data]
#   string      = quoted / literal        (literal-s2c = "{" number "}" CRLF *OCTET)
# The line reader strips the spaces after NO, so the tail starts with "(" , a
# quote or "{" - or is absent altogether (handled as the None case, rule Q3).
_CODE = rb'\([A-Za-z0-9/_-]+( [^)\r\n]*)?\)'
_STRING = rb'("([^"\\\r\n]|\\[^\r\n])*"|\{[0-9]+\+?\})'
NO_TAIL = rb'(' + _CODE + rb'( ' + _STRING + rb')?|' + _STRING + rb')'

# verbs (RFC 5804 section 2)
PREAUTH_VERBS = {"AUTHENTICATE", "STARTTLS", "CAPABILITY", "LOGOUT", "NOOP", "UNAUTHENTICATE"}
SCRIPT_VERBS = {"HAVESPACE", "LISTSCRIPTS", "GETSCRIPT", "PUTSCRIPT", "CHECKSCRIPT", "DELETESCRIPT", "RENAMESCRIPT",
                "SETACTIVE"}
OPERATION_VERB = {
    "capability": "CAPABILITY", "havespace": "HAVESPACE", "listscripts": "LISTSCRIPTS", "getscript": "GETSCRIPT",
    "putscript": "PUTSCRIPT", "deletescript": "DELETESCRIPT", "renamescript": "RENAMESCRIPT",
    "setactive": "SETACTIVE", "checkscript": "CHECKSCRIPT", "logout": "LOGOUT",
}

# quoted string content as the server may send it (RFC 5804: quoted = DQUOTE *1024QUOTED-CHAR DQUOTE,
# QUOTED-CHAR = safe-UTF8-char / "\" QUOTED-SPECIALS) - used for script names in LISTSCRIPTS replies
QUOTED = rb'"([^"\\\r\n]|\\["\\])*"'

SUPPORTED_MECHS = ["DIGEST-MD5", "PLAIN", "LOGIN", "OAUTHBEARER"]
