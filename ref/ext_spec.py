"""Frozen reference: which construct of the supported Sieve language belongs
to which extension (RFC 5228 fileinto/envelope/reject[5429], 3894 copy, 5490
mailbox, 5232 imap4flags, 5173 body, 5260 date, 5230 vacation, 6131
vacation-seconds, 5231 relational, regex draft, 5229 variables)."""

COMMAND_EXT = {
    "fileinto": "fileinto", "reject": "reject", "envelope": "envelope", "body": "body",
    "setflag": "imap4flags", "addflag": "imap4flags", "removeflag": "imap4flags", "hasflag": "imap4flags",
    "date": "date", "currentdate": "date", "vacation": "vacation", "set": "variables",
}
# (command, tag) -> extension
TAG_EXT = {
    ("fileinto", ":copy"): "copy", ("redirect", ":copy"): "copy", ("fileinto", ":create"): "mailbox",
    ("fileinto", ":flags"): "imap4flags", ("keep", ":flags"): "imap4flags",
    ("vacation", ":seconds"): "vacation-seconds",
}
MATCH_VALUE_EXT = {":count": "relational", ":value": "relational", ":regex": "regex"}
MATCH_TYPE_TESTS = ["address", "envelope", "header", "body", "hasflag", "date", "currentdate"]
# commands that need no extension
CORE = ["require", "if", "elsif", "else", "stop", "redirect", "keep", "discard", "address", "allof", "anyof", "exists",
        "true", "false", "header", "not", "size"]
