#!/usr/bin/env python3
"""Maintenance helper (never run by a check): add an entry to known_findings.json."""
import json, sys, os
P = os.path.join(os.path.dirname(os.path.abspath(__file__)), "known_findings.json")
def load():
    if os.path.exists(P):
        return json.load(open(P))
    return {"format": "entries are matched by (rule, qualname, key); status 'known' prints KNOWN-FINDING and exits 0, status 'fixed' suppresses nothing", "findings": []}
def add(status, props, rule, qualname, key, what, commit=None, witness=None, demo=None):
    d = load()
    d["findings"] = [f for f in d["findings"] if not (f["rule"] == rule and f["qualname"] == qualname and f["key"] == key)]
    e = {"status": status, "properties": props, "rule": rule, "qualname": qualname, "key": key, "what": what}
    if commit: e["commit"] = commit
    if witness: e["witness"] = witness
    if demo: e["demo"] = demo
    if status == "fixed":
        e["line"] = "fixed: property=%s %s %s" % (",".join(props), commit, what)
    d["findings"].append(e)
    json.dump(d, open(P, "w"), indent=1)
if __name__ == "__main__":
    import argparse
    ap = argparse.ArgumentParser()
    ap.add_argument("status"); ap.add_argument("props"); ap.add_argument("rule"); ap.add_argument("qualname"); ap.add_argument("key"); ap.add_argument("what")
    ap.add_argument("--commit"); ap.add_argument("--witness"); ap.add_argument("--demo")
    a = ap.parse_args()
    add(a.status, a.props.split(","), a.rule, a.qualname, a.key, a.what, a.commit, a.witness, a.demo)
