"""O5: disable, disable, enable leaves enabled=True with a still wrapped content."""
import io
from sievelib.factory import FiltersSet
fs = FiltersSet("t")
fs.addfilter("r", [("Subject", ":is", "x")], [("keep",)])
print(fs.disablefilter("r"), fs.disablefilter("r"), fs.enablefilter("r"))
f = fs.filters[0]
out = io.StringIO(); fs.tosieve(out)
print("enabled flag:", f["enabled"], "| is_filter_disabled:", fs.is_filter_disabled("r"))
print(out.getvalue())
assert f["enabled"] == (not fs.is_filter_disabled("r")), "flag and rendering disagree"
assert "if false" not in out.getvalue()
