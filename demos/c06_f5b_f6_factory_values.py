"""F6 / F5b: list-valued action argument -> TypeError; user values are not escaped (script structure can be changed)."""
import io, sys
from sievelib.factory import FiltersSet
from sievelib.parser import Parser
bad = 0
def render(conds, acts):
    fs = FiltersSet("t"); fs.addfilter("r", conds, acts)
    out = io.StringIO(); fs.tosieve(out); return out.getvalue()
try:
    txt = render([("Subject", ":is", "x")], [("vacation", ":addresses", ["a@b", "c@d"], "away")])
    p = Parser(); ok = p.parse(txt); print("list-valued action argument ->", "parses" if ok else "REJECTED " + p.error); bad += not ok
except Exception as e:
    print("list-valued action argument -> raises", type(e).__name__, e); bad += 1
for val in ['x"; discard; #', 'back\\slash', 'quote"inside']:
    try:
        txt = render([("Subject", ":is", "x")], [("fileinto", val)])
        p = Parser(); ok = p.parse(txt)
        cmds = [c.name for c in p.result[-1].children] if ok else None
        folder = p.result[-1].children[0].arguments.get("mailbox") if ok else None
        good = ok and cmds == ["fileinto"]
        print(repr(val), "->", "commands in block: %s, mailbox token %s" % (cmds, folder) if ok else "REJECTED " + p.error, "" if good else "  <-- structure changed / invalid")
        bad += not good
    except Exception as e:
        print(repr(val), "-> raises", type(e).__name__); bad += 1
sys.exit(1 if bad else 0)
