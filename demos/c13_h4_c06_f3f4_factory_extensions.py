"""H4/F3/F4: factory and the process-global extension registry; missing requires for :flags / :seconds / :regex."""
import io, sys
from sievelib.factory import FiltersSet
from sievelib.parser import Parser
from sievelib import commands
def render(fs):
    out = io.StringIO(); fs.tosieve(out); return out.getvalue()
bad = 0
def case(label, conds, acts):
    global bad
    commands.RequireCommand.loaded_extensions = []      # fresh process
    fs = FiltersSet("t")
    try:
        fs.addfilter("r", conds, acts)
        txt = render(fs)
        p = Parser(); ok = p.parse(txt)
        msg = "parses" if ok else "REJECTED: %s" % p.error
    except Exception as e:
        ok = False; msg = "raises %s: %s" % (type(e).__name__, e)
    print("%-40s -> %s" % (label, msg)); bad += not ok
case("header :regex", [("Subject", ":regex", "x")], [("keep",)])
case("header :count", [("Subject", ":notcontains", "x")], [("keep",)])
case("envelope :regex", [("envelope", ":regex", ["to"], ["x"])], [("keep",)])
case("address :regex", [("address", ":regex", ["to"], ["x"])], [("keep",)])
case("body :regex", [("body", ":text", ":regex", "x")], [("keep",)])
case("currentdate :regex", [("currentdate", ":zone", "+0100", ":regex", "date", "x")], [("keep",)])
case("fileinto :flags", [("Subject", ":is", "x")], [("fileinto", ":flags", "\\Seen", "INBOX")])
case("keep :flags", [("Subject", ":is", "x")], [("keep", ":flags", "\\Seen")])
case("vacation :seconds", [("Subject", ":is", "x")], [("vacation", ":seconds", 3, "away")])
case("fileinto :copy :create", [("Subject", ":is", "x")], [("fileinto", ":copy", ":create", "INBOX")])
# history dependence
commands.RequireCommand.loaded_extensions = []
p = Parser(); assert p.parse('require "regex"; if header :regex "a" "b" { keep; }')
fs = FiltersSet("t")
try: fs.addfilter("r", [("Subject", ":regex", "x")], [("keep",)]); after = "ok"
except Exception as e: after = type(e).__name__
commands.RequireCommand.loaded_extensions = []
fs = FiltersSet("t")
try: fs.addfilter("r", [("Subject", ":regex", "x")], [("keep",)]); fresh = "ok"
except Exception as e: fresh = type(e).__name__
print("addfilter(:regex) after a parse that required regex:", after, "| in a fresh state:", fresh)
bad += after != fresh
print("wrong:", bad); sys.exit(1 if bad else 0)
