import signal, socket, sys
from unittest import mock
from sievelib import managesieve
signal.alarm(20)
class FakeSock:
    def __init__(self, chunks): self.chunks=list(chunks); self.sent=[]
    def settimeout(self,t): pass
    def recv(self,n):
        if not self.chunks: raise socket.timeout()
        c=self.chunks.pop(0); 
        if len(c)>n: self.chunks.insert(0,c[n:]); c=c[:n]
        return c
    def sendall(self,b): self.sent.append(b)
    def close(self): pass
CAP=b'"IMPLEMENTATION" "x"\r\n"SASL" "PLAIN"\r\n"SIEVE" "fileinto"\r\nOK "ready"\r\n'
# A3: reconnect keeps authenticated
s1=FakeSock([CAP, b'OK "auth"\r\n'])
s2=FakeSock([CAP, b'NO "bad"\r\n', b'OK "list"\r\n'])
socks=[s1,s2]
with mock.patch("socket.create_connection", side_effect=lambda *a,**k: socks.pop(0)):
    c=managesieve.Client("h")
    print("connect1", c.connect("u","p"))
    print("connect2", c.connect("u","bad"))
    try:
        print("listscripts ->", c.listscripts(), "sent on s2:", s2.sent)
    except managesieve.Error as e:
        print("Error raised (good):", e, s2.sent)
