"""W2/W3/W6: script names are put on the wire without escaping; a name that
looks like a literal size is sent unquoted; CR/LF smuggle a second command."""
import signal, socket, re
from unittest import mock
from sievelib import managesieve
signal.alarm(20)
class FakeSock:
    def __init__(self, chunks): self.chunks=list(chunks); self.sent=[]
    def settimeout(self,t): pass
    def recv(self,n):
        if not self.chunks: raise socket.timeout()
        c=self.chunks.pop(0)
        if len(c)>n: self.chunks.insert(0,c[n:]); c=c[:n]
        return c
    def sendall(self,b): self.sent.append(b)
    def close(self): pass
CAP=b'"IMPLEMENTATION" "x"\r\n"SASL" "PLAIN"\r\nOK "ready"\r\n'
def server_parse(wire):
    """strict RFC 5804 command parser: returns list of commands (verb, [args])"""
    cmds=[]; i=0
    while i < len(wire):
        m=re.compile(rb'[A-Z]+').match(wire,i); assert m, wire[i:i+20]
        verb=m.group(0); i=m.end(); args=[]
        while wire[i:i+2]!=b'\r\n':
            assert wire[i:i+1]==b' ', wire[i:i+10]; i+=1
            if wire[i:i+1]==b'"':
                j=i+1; out=b''
                while wire[j:j+1]!=b'"':
                    if wire[j:j+1]==b'\\': j+=1
                    assert wire[j:j+1] not in (b'\r',b'\n',b'\0',b''), "bad char in quoted"
                    out+=wire[j:j+1]; j+=1
                args.append(out); i=j+1
            elif wire[i:i+1]==b'{':
                m=re.compile(rb'\{(\d+)\+\}\r\n').match(wire,i); assert m, wire[i:i+10]
                n=int(m.group(1)); args.append(wire[m.end():m.end()+n]); i=m.end()+n
            else:
                m=re.compile(rb'\d+').match(wire,i); assert m, wire[i:i+10]; args.append(int(m.group(0))); i=m.end()
        i+=2; cmds.append((verb,args))
    return cmds
bad=0
for name in ['plain', 'a"b', 'back\\slash', '{5}', '{5+}', 'a\r\nLOGOUT', 'nul\0x', 'é"']:
    s=FakeSock([CAP, b'OK "auth"\r\n', b'OK\r\n'])
    with mock.patch("socket.create_connection", return_value=s):
        c=managesieve.Client("h"); assert c.connect("u","p")
        try:
            c.deletescript(name)
            wire=b"".join(s.sent[1:])
            try: got=server_parse(wire)
            except AssertionError as e: got="unparseable (%s)" % (e,)
            ok = got==[(b"DELETESCRIPT",[name.encode()])]
        except managesieve.Error as e:
            ok = len(s.sent)==1; got="refused: %s" % e
        print(repr(name), "->", got, "" if ok else "  <-- WRONG")
        bad += not ok
assert not bad, "%d names mis-framed" % bad
