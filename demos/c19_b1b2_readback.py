"""B1/B2: read-back of conditions: address is not read back at all; values with commas are split."""
import sys
from sievelib.factory import FiltersSet
bad = 0
def rb(conds, label):
    global bad
    fs = FiltersSet("t"); fs.addfilter("r", conds, [("keep",)])
    got = fs.get_filter_conditions("r")
    ok = [tuple(c) for c in got] == [tuple(c) for c in conds]
    print("%-28s supplied %s\n%-28s read     %s %s" % (label, conds, "", got, "" if ok else "  <-- DIFFERS")); bad += not ok
rb([("address", ":is", "from", "boss@x.org")], "address (strings)")
rb([("address", ":notcontains", ["from", "to"], ["a@x", "b@x"])], "address negated (lists)")
rb([("envelope", ":is", ["from"], ["a@x"])], "envelope")
rb([("Subject", ":is", "a,b")], "header value with comma")
rb([("Subject", ":contains", "plain")], "header plain")
# B2 known findings (comma split):
fs = FiltersSet("t")
fs.addfilter("r", [("envelope", ":is", ["to"], ["a,b"])], [("fileinto", "a,b")])
print(fs.get_filter_conditions("r"), fs.get_filter_actions("r"))
fs.addfilter("r2", [("X,Y", ":is", "v")], [("keep",)])
print(fs.get_filter_conditions("r2"))
print("wrong:", bad); sys.exit(1 if bad else 0)
