"""Q3/Q4: NO replies the RFC 5804 grammar allows but the error parser rejects."""
import signal, socket
from unittest import mock
from sievelib import managesieve
signal.alarm(20)
class FakeSock:
    def __init__(self, chunks): self.chunks=list(chunks); self.sent=[]
    def settimeout(self,t): pass
    def recv(self,n):
        if not self.chunks: raise socket.timeout()
        c=self.chunks.pop(0)
        if len(c)>n: self.chunks.insert(0,c[n:]); c=c[:n]
        return c
    def sendall(self,b): self.sent.append(b)
    def close(self): pass
CAP=b'"IMPLEMENTATION" "x"\r\n"SASL" "PLAIN"\r\nOK "ready"\r\n'
bad=0
for reply, want in [(b'NO\r\n', (b"", b"")), (b'NO (NONEXISTENT)\r\n', (b"NONEXISTENT", b"")),
              (b'NO (QUOTA/MAXSIZE) {5}\r\nhello\r\n', (b"QUOTA/MAXSIZE", b"hello\r\n")),
              (b'NO ""\r\n', (b"", b"")), (b'NO (TAG "x1") "failed"\r\n', (b'TAG "x1"', b"failed")),
              (b'NO "plain"\r\n', (b"", b"plain")), (b'NO (ACTIVE) "in use"\r\n', (b"ACTIVE", b"in use")),
              (b'NO {3}\r\nabc\r\n', (b"", b"abc\r\n"))]:
    s=FakeSock([CAP, b'OK "auth"\r\n', reply, b'OK "next"\r\n'])
    with mock.patch("socket.create_connection", return_value=s):
        c=managesieve.Client("h"); assert c.connect("u","p")
        try:
            r=c.deletescript("x"); got=(c.errcode, c.errmsg)
            nxt=c.setactive("y")
            ok = r is False and got==want and nxt is True
            print(reply, "->", r, got, "next op:", nxt, "" if ok else "   <-- WRONG")
        except Exception as e:
            ok=False
            print(reply, "-> raises", type(e).__name__, e, "   <-- WRONG")
        bad += not ok
assert not bad, "%d NO replies mishandled" % bad
