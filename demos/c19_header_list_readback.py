"""B1 (model:reader): a header condition given with a LIST of header names or keys could not be read back.
Before the fix (73caa7a) get_filter_conditions raised AttributeError: 'list' object has no attribute 'strip'."""
from sievelib.factory import FiltersSet
fs = FiltersSet("t")
for i, c in enumerate([(["To", "Cc"], ":is", ["a", "b"]), (["To", "Cc"], ":notis", "a"), ("To", ":notcontains", ["a", "b"])]):
    fs.addfilter("r%d" % i, [c], [("fileinto", "x")])
    got = fs.get_filter_conditions("r%d" % i)
    print(c, "->", got)
    assert got == [c], got
