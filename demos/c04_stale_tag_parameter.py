"""Witness for the defect repaired by the fix: commit "drop the parameter of a replaced tag".
A tag slot filled twice (`:count "gt" :is`) kept the first tag's parameter: the tree printed as `header :is "gt" "a" "b"`, which the parser rejects.
Run with PYTHONPATH=<tree>; exit 1 when the defect is present."""
import io, sys
from sievelib.parser import Parser

src = b'require "relational";\nif header :count "gt" :is "a" "b" {\n    keep;\n}\n'
p = Parser()
assert p.parse(src), p.error
out = io.StringIO()
for c in p.result:
    c.tosieve(target=out)
text = out.getvalue()
p2 = Parser()
ok = p2.parse(text)
print(repr(text), "->", ok, getattr(p2, "error", None))
sys.exit(0 if ok and '"gt"' not in text else 1)
