"""U6: DIGEST-MD5 (first in the client's preference list) is Python-2 code: any server announcing it makes connect() raise."""
import signal, socket, base64
from unittest import mock
from sievelib import managesieve
signal.alarm(20)
class FakeSock:
    def __init__(self, chunks): self.chunks=list(chunks); self.sent=[]
    def settimeout(self,t): pass
    def recv(self,n):
        if not self.chunks: raise socket.timeout()
        c=self.chunks.pop(0)
        if len(c)>n: self.chunks.insert(0,c[n:]); c=c[:n]
        return c
    def sendall(self,b): self.sent.append(b)
    def close(self): pass
CAP=b'"IMPLEMENTATION" "x"\r\n"SASL" "DIGEST-MD5 PLAIN"\r\nOK "ready"\r\n'
chal=base64.b64encode(b'realm="r",nonce="abc",qop="auth",algorithm=md5-sess,charset=utf-8')
s=FakeSock([CAP, b'"'+chal+b'"\r\n', b'OK\r\n'])
with mock.patch("socket.create_connection", return_value=s):
    c=managesieve.Client("h")
    r=c.connect("u","p")
    print("connect ->", r)
