"""R2/R5: emulated rename overwrites an *active* script named like the target;
a refused LISTSCRIPTS makes it raise TypeError."""
import signal, socket
from unittest import mock
from sievelib import managesieve
signal.alarm(20)
class FakeSock:
    def __init__(self, chunks): self.chunks=list(chunks); self.sent=[]
    def settimeout(self,t): pass
    def recv(self,n):
        if not self.chunks: raise socket.timeout()
        c=self.chunks.pop(0)
        if len(c)>n: self.chunks.insert(0,c[n:]); c=c[:n]
        return c
    def sendall(self,b): self.sent.append(b)
    def close(self): pass
CAP=b'"IMPLEMENTATION" "x"\r\n"SASL" "PLAIN"\r\nOK "ready"\r\n'   # no VERSION -> emulation
bad=0
# 1. target "b" exists and is ACTIVE
s=FakeSock([CAP, b'OK "auth"\r\n', b'"a"\r\n"b" ACTIVE\r\nOK\r\n', b'{5}\r\nkeep;\r\nOK\r\n', b'OK\r\n', b'OK\r\n', b'OK\r\n'])
with mock.patch("socket.create_connection", return_value=s):
    c=managesieve.Client("h"); assert c.connect("u","p")
    r=c.renamescript("a","b")
    puts=[x for x in s.sent if x.startswith(b"PUTSCRIPT")]
    print("rename a->b with b active:", r, "PUTSCRIPT sent:", puts)
    bad += bool(puts)
# 2. LISTSCRIPTS refused
s=FakeSock([CAP, b'OK "auth"\r\n', b'NO "try later"\r\n'])
with mock.patch("socket.create_connection", return_value=s):
    c=managesieve.Client("h"); assert c.connect("u","p")
    try:
        r=c.renamescript("a","b"); print("listing refused ->", r); bad += r is not False
    except managesieve.Error as e: print("listing refused -> Error", e)
    except Exception as e: print("listing refused -> raises", type(e).__name__, e); bad+=1
assert not bad
