"""Witness for the defect repaired by the fix: commit "consume a literal sent with an OK reply".
RFC 5804 lets the human-readable text of OK be a literal (`OK (WARNINGS) {13}` CRLF 13 octets CRLF).  The client consumed such a
literal only for NO: after an OK its octets stayed in the buffer and were read as the start of the next reply.
Run with PYTHONPATH=<tree>; exit 1 when the defect is present."""
import signal, socket, sys
from unittest import mock
from sievelib import managesieve
signal.alarm(20)


class FakeSock:
    def __init__(self, chunks): self.chunks = list(chunks); self.sent = []
    def settimeout(self, t): pass
    def recv(self, n):
        if not self.chunks: raise socket.timeout()
        c = self.chunks.pop(0)
        if len(c) > n: self.chunks.insert(0, c[n:]); c = c[:n]
        return c
    def sendall(self, b): self.sent.append(b)
    def close(self): pass


CAP = b'"IMPLEMENTATION" "x"\r\n"SASL" "PLAIN"\r\n"SIEVE" "fileinto"\r\nOK "ready"\r\n'
s = FakeSock([CAP, b'OK "auth"\r\n', b'OK (WARNINGS) {13}\r\nline 1: hello\r\n', b'"a.sieve" ACTIVE\r\nOK "listed"\r\n'])
with mock.patch("socket.create_connection", side_effect=lambda *a, **k: s):
    c = managesieve.Client("h")
    assert c.connect("u", "p") is True
    r1 = c.putscript("x", "keep;")
    r2 = c.listscripts()
print("putscript ->", r1, "; listscripts ->", r2)
sys.exit(0 if (r1 is True and r2 == ("a.sieve", [])) else 1)
