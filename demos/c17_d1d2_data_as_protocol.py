"""D1/D2/D4: stored data interpreted as protocol: a script whose first line looks like {n} loses it,
an empty script raises IndexError, a listed name that looks like {n} disappears, an escaped quote truncates a name."""
import signal, socket
from unittest import mock
from sievelib import managesieve
signal.alarm(20)
class FakeSock:
    def __init__(self, chunks): self.chunks=list(chunks); self.sent=[]
    def settimeout(self,t): pass
    def recv(self,n):
        if not self.chunks: raise socket.timeout()
        c=self.chunks.pop(0)
        if len(c)>n: self.chunks.insert(0,c[n:]); c=c[:n]
        return c
    def sendall(self,b): self.sent.append(b)
    def close(self): pass
CAP=b'"IMPLEMENTATION" "x"\r\n"SASL" "PLAIN"\r\nOK "ready"\r\n'
def client(reply):
    s=FakeSock([CAP, b'OK "auth"\r\n', reply])
    with mock.patch("socket.create_connection", return_value=s):
        c=managesieve.Client("h"); assert c.connect("u","p")
    return c
bad=0
def lit(b): return b"{%d}\r\n" % len(b) + b + b"\r\n"
for body in [b'{5}\r\nkeep;\r\n', b'# {12}\r\nkeep;\r\n', b'', b'keep;']:
    try: got=client(lit(body)+b'OK\r\n').getscript("x")
    except Exception as e: got="raises %s" % type(e).__name__
    want="\n".join(body.decode().splitlines())
    ok = got==want; bad += not ok
    print("getscript body", body, "->", repr(got), "" if ok else "  <-- WRONG (want %r)" % want)
for listing, want in [(b'"{5}"\r\n"b" ACTIVE\r\nOK\r\n', ("b", ["{5}"])), (b'{3}\r\n{7}\r\n"b"\r\nOK\r\n', (None, ["{7}", "b"])),
                      (b'"a\\"b"\r\n"c\\\\d" ACTIVE\r\nOK\r\n', ('c\\d', ['a"b']))]:
    try: got=client(listing).listscripts()
    except Exception as e: got="raises %s" % type(e).__name__
    ok = got==want; bad += not ok
    print("listscripts", listing, "->", got, "" if ok else "  <-- WRONG (want %r)" % (want,))
assert not bad
