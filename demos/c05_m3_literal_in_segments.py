"""M3: a literal delivered in several segments is returned short (single recv)."""
import signal, socket
from unittest import mock
from sievelib import managesieve
signal.alarm(20)
class FakeSock:
    def __init__(self, chunks): self.chunks=list(chunks); self.sent=[]
    def settimeout(self,t): pass
    def recv(self,n):
        if not self.chunks: raise socket.timeout()
        c=self.chunks.pop(0)
        if len(c)>n: self.chunks.insert(0,c[n:]); c=c[:n]
        return c
    def sendall(self,b): self.sent.append(b)
    def close(self): pass
CAP=b'"IMPLEMENTATION" "x"\r\n"SASL" "PLAIN"\r\nOK "ready"\r\n'
body=b'vacation text:\r\nOK thanks\r\n.\r\n;\r\n'
reply=b'{%d}\r\n' % len(body) + body + b'OK "done"\r\n'
def run(chunks):
    s=FakeSock([CAP, b'OK "auth"\r\n']+chunks)
    with mock.patch("socket.create_connection", return_value=s):
        c=managesieve.Client("h"); assert c.connect("u","p")
        return c.getscript("x")
whole=run([reply])
cut=run([reply[:6], reply[6:10], reply[10:22], reply[22:]])
print("one segment :", repr(whole))
print("4 segments  :", repr(cut))
assert whole == cut, "result depends on segmentation"
