"""Witness for the recorded finding C20/G10: a registered command used without its trailing required argument(s) is accepted
(`mycmd "only-one";` although the definition demands two strings).  The suite pins `reject;` (the same code path) as accepted, so the
behaviour is recorded, not repaired.  Exit 1 while the behaviour is present."""
import sys
from sievelib import commands
from sievelib.parser import Parser


class MycmdCommand(commands.ActionCommand):
    args_definition = [
        {"name": "first", "type": ["string"], "required": True},
        {"name": "second", "type": ["string"], "required": True},
    ]


commands.add_commands(MycmdCommand)
p = Parser()
ok = p.parse(b'mycmd "only-one";\n')
print("mycmd with one of two required strings ->", ok, getattr(p, "error", None))
sys.exit(1 if ok else 0)
