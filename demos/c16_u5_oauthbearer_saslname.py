"""U5: OAUTHBEARER gs2 header: a login containing ',' or '=' is not escaped (RFC 5801 saslname)."""
import signal, socket, base64
from unittest import mock
from sievelib import managesieve
signal.alarm(20)
class FakeSock:
    def __init__(self, chunks): self.chunks=list(chunks); self.sent=[]
    def settimeout(self,t): pass
    def recv(self,n):
        if not self.chunks: raise socket.timeout()
        c=self.chunks.pop(0)
        if len(c)>n: self.chunks.insert(0,c[n:]); c=c[:n]
        return c
    def sendall(self,b): self.sent.append(b)
    def close(self): pass
CAP=b'"IMPLEMENTATION" "x"\r\n"SASL" "OAUTHBEARER"\r\nOK "ready"\r\n'
def gs2_authzid(payload):
    # RFC 7628 / 5801: gs2-header = "n," ["a=" saslname] "," ; saslname escapes "," as =2C and "=" as =3D
    head, _, rest = payload.partition(b"\x01")
    parts = head.split(b",")
    assert parts[0]==b"n" and len(parts)==3 and parts[2]==b"", "malformed gs2 header %r" % head
    a = parts[1]; assert a.startswith(b"a=")
    v = a[2:]; assert b"=" not in v.replace(b"=2C",b"").replace(b"=3D",b""), "unescaped '=' in saslname %r" % v
    return v.replace(b"=2C", b",").replace(b"=3D", b"=")
bad=0
for login in ["user@example.com", "a,b", "x=y", "o=acme,cn=joe"]:
    s=FakeSock([CAP, b'OK "auth"\r\n'])
    with mock.patch("socket.create_connection", return_value=s):
        c=managesieve.Client("h"); c.connect(login,"tok",authmech="OAUTHBEARER")
        payload=base64.b64decode(s.sent[0].split(b'"')[3])
        try: got=gs2_authzid(payload); ok = got==login.encode()
        except AssertionError as e: got=str(e); ok=False
        print(repr(login), "->", got, "" if ok else "  <-- WRONG"); bad += not ok
assert not bad
