"""Witness for the defect repaired by the fix: commit "start every connection from a clean state".
connect() kept the capability table and the read buffer of the previous connection:
 (1) a server that announces no SASL mechanism was sent `AUTHENTICATE "PLAIN" <credentials>` because the table still held the
     previous connection's SASL line (C16: "if none qualifies it fails without sending credentials"; C14: a stale VERSION line
     makes renamescript send RENAMESCRIPT to a server that never announced it);
 (2) bytes left unread by the previous connection (a reply cut by a timeout) were parsed as the start of the new greeting
     (C05/C15: replies out of step).
Run with PYTHONPATH=<tree>; exit 1 when the defect is present."""
import signal, socket, sys
from unittest import mock
from sievelib import managesieve
signal.alarm(20)


class FakeSock:
    def __init__(self, chunks): self.chunks = list(chunks); self.sent = []
    def settimeout(self, t): pass
    def recv(self, n):
        if not self.chunks: raise socket.timeout()
        c = self.chunks.pop(0)
        if len(c) > n: self.chunks.insert(0, c[n:]); c = c[:n]
        return c
    def sendall(self, b): self.sent.append(b)
    def close(self): pass


bad = []
CAP1 = b'"IMPLEMENTATION" "x"\r\n"SASL" "PLAIN"\r\n"SIEVE" "fileinto"\r\n"VERSION" "1.0"\r\nOK "ready"\r\n'
CAP2 = b'"IMPLEMENTATION" "y"\r\n"SIEVE" "fileinto"\r\nOK "ready"\r\n'          # no SASL, no VERSION
s1 = FakeSock([CAP1, b'OK "auth"\r\n'])
s2 = FakeSock([CAP2, b'OK "auth"\r\n'])
socks = [s1, s2]
with mock.patch("socket.create_connection", side_effect=lambda *a, **k: socks.pop(0)):
    c = managesieve.Client("h")
    assert c.connect("u", "secret") is True
    try:
        r = c.connect("u", "secret")
        print("(1) second connect ->", r, "sent:", s2.sent)
    except managesieve.Error as e:
        print("(1) second connect raised Error (good):", e, "sent:", s2.sent)
    if any(b"AUTHENTICATE" in x for x in s2.sent):
        bad.append("credentials sent to a server that announced no SASL mechanism")

# (2) stale read buffer
# the server closes the idle session: its BYE arrives in the same segment as the last reply and stays in the buffer
s3 = FakeSock([CAP1, b'OK "auth"\r\n', b'OK "listed"\r\nBYE "idle too long"\r\n'])
s4 = FakeSock([CAP1, b'OK "auth"\r\n'])
socks = [s3, s4]
with mock.patch("socket.create_connection", side_effect=lambda *a, **k: socks.pop(0)):
    c = managesieve.Client("h")
    assert c.connect("u", "secret") is True
    print("(2) listscripts:", c.listscripts())
    try:
        r = c.connect("u", "secret")
        print("(2) reconnect ->", r)
        if r is not True:
            bad.append("reconnect failed: bytes of the previous connection were read as the new greeting")
    except Exception as e:
        print("(2) reconnect raised", type(e).__name__, e)
        bad.append("reconnect raised %s: bytes of the previous connection were read as the new greeting" % type(e).__name__)
print("DEFECTS:", bad)
sys.exit(1 if bad else 0)
