"""A6: plaintext bytes buffered before the TLS handshake are parsed as the
post-TLS capability list (mechanism chosen from pre-handshake bytes)."""
import signal, socket, base64
from unittest import mock
from sievelib import managesieve
signal.alarm(20)
class FakeSock:
    def __init__(self, chunks): self.chunks=list(chunks); self.sent=[]
    def settimeout(self,t): pass
    def recv(self,n):
        if not self.chunks: raise socket.timeout()
        c=self.chunks.pop(0)
        if len(c)>n: self.chunks.insert(0,c[n:]); c=c[:n]
        return c
    def sendall(self,b): self.sent.append(b)
    def close(self): pass
PRE=b'"IMPLEMENTATION" "x"\r\n"SASL" "LOGIN"\r\n"STARTTLS"\r\nOK "ready"\r\n'
# attacker appends a fake capability list to the plaintext STARTTLS reply (same segment)
INJECT=b'OK "begin tls"\r\n"SASL" "PLAIN"\r\nOK "fake"\r\n'
plain=FakeSock([PRE, INJECT])
# what the genuine server says after the handshake
tls=FakeSock([b'"SASL" "LOGIN"\r\nOK "real"\r\n', b'OK "auth"\r\n', b'OK\r\n'])
class Ctx:
    def load_cert_chain(self,*a,**k): pass
    def wrap_socket(self, sock, server_hostname=None): return tls
with mock.patch("socket.create_connection", return_value=plain), mock.patch("ssl.create_default_context", return_value=Ctx()):
    c=managesieve.Client("h")
    try: r=c.connect("u","p",starttls=True)
    except Exception as e: r=repr(e)
    print("connect ->", r)
    print("sent over TLS:", tls.sent)
    mech = tls.sent[0].split()[1] if tls.sent else None
    print("mechanism used:", mech, "(server announced LOGIN after the handshake)")
    assert mech == b'"LOGIN"', "mechanism chosen from pre-handshake bytes"
