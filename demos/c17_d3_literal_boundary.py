"""D3: a literal loses its boundary: `{6}\r\nscript ACTIVE` is decoded as a script named 'script ACTIVE'."""
import signal, socket
from unittest import mock
from sievelib import managesieve
signal.alarm(20)
class FakeSock:
    def __init__(self, chunks): self.chunks=list(chunks); self.sent=[]
    def settimeout(self,t): pass
    def recv(self,n):
        if not self.chunks: raise socket.timeout()
        c=self.chunks.pop(0)
        if len(c)>n: self.chunks.insert(0,c[n:]); c=c[:n]
        return c
    def sendall(self,b): self.sent.append(b)
    def close(self): pass
CAP=b'"IMPLEMENTATION" "x"\r\n"SASL" "PLAIN"\r\nOK "ready"\r\n'
s=FakeSock([CAP, b'OK "auth"\r\n', b'{6}\r\nscript ACTIVE\r\n"other"\r\nOK\r\n'])
with mock.patch("socket.create_connection", return_value=s):
    c=managesieve.Client("h"); assert c.connect("u","p")
got=c.listscripts()
print("listscripts ->", got)
assert got==("script", ["other"]), "active script sent as a literal is not recognised"
