"""P17: a test with an optional leading argument (hasflag, RFC 5232) written with ONE argument inside a test list was rejected:
`,` and `)` were consumed for the enclosing list before the test could settle its arguments (only `{` triggered the reassignment).
Noticed by two independent sub-agents of round 6 while probing; exits non-zero on a tree with the defect."""
import signal
import sys
from sievelib.parser import Parser

signal.alarm(20)
bad = 0
for script, want in [
        (b'require ["imap4flags"]; if anyof(hasflag "x") { stop; }', True),
        (b'require ["imap4flags"]; if anyof(hasflag "x", true) { stop; }', True),
        (b'require ["imap4flags"]; if allof(true, hasflag ["a", "b"]) { stop; }', True),
        (b'require ["imap4flags"]; if anyof(not hasflag :contains "x", false) { stop; }', True),
        (b'require ["imap4flags"]; if anyof(hasflag "v" "x") { stop; }', True),
        (b'require ["imap4flags"]; if hasflag "x" { stop; }', True),
        (b'require ["imap4flags"]; if anyof(hasflag) { stop; }', False),
        (b'require ["imap4flags"]; if anyof(hasflag "x" { stop; }', False)]:
    p = Parser()
    got = p.parse(script)
    print(script, "->", got, getattr(p, "error", None) if not got else "")
    if got is not want:
        bad += 1
    elif got:
        t = [c for c in p.result if c.name == "if"][0]["test"]
        tests = t.arguments.get("tests") or [t]
        for x in tests:
            x = x.arguments.get("test", x) if x.name == "not" else x
            if x.name == "hasflag" and "list-of-flags" not in x.arguments:
                print("   hasflag without its list of flags:", x.arguments)
                bad += 1
sys.exit(1 if bad else 0)
