"""Parser witnesses (C01/C02/C03): each input with the verdict the properties demand."""
import signal, sys
from sievelib.parser import Parser
class TO(Exception): pass
def h(*a): raise TO()
signal.signal(signal.SIGALRM, h)
CASES = [
 # (script, expected verdict, group)
 (b'require ["imap4flags"]; if hasflag { keep; }', False, "X2 hang"),
 (b'require ["imap4flags"]; if hasflag "a" { keep; }', True, "X2 ok"),
 (b'require ["imap4flags"]; if hasflag "v" "a" { keep; }', True, "X2 ok"),
 (b'require;', None, "X7"),   # verdict outside C01 (omitted trailing args) but must not raise
 (b'control;', False, "T4"), (b'action;', False, "T4"), (b'unknown;', False, "T4"), (b'if test { keep; }', False, "T4"),
 (b'command;', False, "T4"),
 (b'keep "\xff";', False, "X5"), (b'redirect ["\xff"];', False, "X5"),
 ('# ééééééééééééé\nif true ;'.encode(), False, "X6"),
 ('if true { keep; } éééééé }'.encode(), False, "X6"),
 (b'keep', False, "P2"), (b'if true { keep; } else', False, "P2"), (b'if true {keep;} stop', False, "P2"),
 (b'stop ["a"];', False, "P1"), (b'stop true;', False, "P1"), (b'if true true { keep; }', False, "P1"),
 (b'stop { }', False, "P5"), (b'redirect "a@b" { }', False, "P5"), (b'if true { keep; } else;', False, "P9"),
 (b'require "relational"; if header :COUNT "gt" "a" "1" { keep; }', True, "G6"),
 (b'require "relational"; if header :Count "GT" "a" "1" { keep; }', None, "G6 value case (outside claim)"),
 (b'require "vacation"; vacation text:\r\nhello\r\n.\r\n;\r\n', True, "L1 crlf"),
 (b'require "vacation"; vacation text:\nprice: 5$\n.\n;\n', True, "L1 dollar"),
 (b'require "vacation"; vacation text:\n.dot-stuffed\n..\n.\n;\n', True, "L1 dots"),
 (b'if true { keep; }', True, "sanity"), (b'reject;', None, "pinned by the suite"),
 (b'require "fileinto"; fileinto "a";', True, "sanity"),
]
bad = 0
for src, want, grp in CASES:
    p = Parser()
    signal.alarm(3)
    try:
        got = p.parse(src)
        if got is False: assert isinstance(p.error, str) and p.error.startswith("line "), p.error
    except TO: got = "HANG"
    except Exception as e: got = "raises %s" % type(e).__name__
    finally: signal.alarm(0)
    ok = (got == want) if want is not None else (got in (True, False))
    bad += not ok
    print("%-34s %-60r -> %-22s %s" % (grp, src[:60], got, "" if ok else "<-- WRONG (want %s)" % want))
print("wrong:", bad)
sys.exit(1 if bad else 0)
