"""S2: string-list items are stripped of quotes and re-quoted by tosieve(): an item ending in an escaped quote breaks the round trip."""
import io, signal
from sievelib.parser import Parser
signal.alarm(20)
bad=0
for src in ['if header ["a\\"", "b"] "x" { keep; }', 'if header ["\\"quoted\\"", "b"] "x" { keep; }', 'if header ["plain", "b"] "x\\"" { keep; }',
            'require "vacation"; vacation :subject text:\nhi\n.\n "r";', 'if anyof (true, not false) { stop; }']:
    p=Parser(); assert p.parse(src), p.error
    out=io.StringIO()
    for c in p.result: c.tosieve(target=out)
    txt=out.getvalue()
    q=Parser(); ok=q.parse(txt)
    out2=io.StringIO()
    if ok:
        for c in q.result: c.tosieve(target=out2)
    same = ok and out2.getvalue()==txt
    print(repr(src), "->", repr(txt), "reparse:", ok if ok else q.error, "fixed point:", same)
    bad += not same
assert not bad
