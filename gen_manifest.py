#!/usr/bin/env python3
"""Maintenance helper: regenerate MANIFEST.json from the table below (never run by a check)."""
import json, os, subprocess
HERE = os.path.dirname(os.path.abspath(__file__))
props = [json.loads(l) for l in open(os.path.join(HERE, "properties.jsonl"))]

NOTE = ("Trusted base: the engine's hand-written model of the Python subset the repository uses (statement CFG with "
        "short-circuit decomposition, explicit raise, name mangling, decorators as wrappers, getattr dispatch), the stdlib "
        "regex parser for pattern syntax trees, and the reviewed reference tables under /verif/ref. The universally "
        "quantified behaviour itself is NOT decided; only the named structural clauses are (each a necessary condition).")

CLAIMED = {
 "C10": dict(
    text="Call-graph and dominance facts that hold on every path of managesieve.py, hence for every call history and server behaviour: "
         "A1 every command-sender call site carrying a script verb is reachable from externally callable methods only through the "
         "authentication guard; A2 the guard calls the wrapped method only under `.authenticated`; A3 the flag becomes true only on the "
         "success edge of the selected mechanism, mechanisms return True only on OK, connect() resets it; A4 authenticator only after a "
         "successful TLS upgrade when starttls is set (finite-domain path enumeration of connect); A5/A6 the upgrade wraps only after OK, "
         "replaces the socket, clears and re-reads capabilities and discards the plaintext buffer; A7 credential sends only below the "
         "authenticator. Substantially decides the property's own static quantifier; server/ssl behaviour is assumed.",
    technique="call-graph guarded reachability + CFG dominance/edge facts + finite-domain path enumeration (AST, no execution)",
    ref="4/C10"),
 "C05": dict(
    text="Ownership and loop-shape facts that make the reply readers functions of the byte stream alone, for every recv() schedule: "
         "M1 recv is called only in the line reader and the block reader; M2 only they touch the read buffer; M3 the block reader's recv sits "
         "in a loop that ends only when the requested size is accumulated, asks for the remaining count and consumes buffered bytes first; "
         "M4 the line reader's loop has 'delimiter found' as only normal exit and splits the buffer exactly at the delimiter; M5 literal sizes "
         "reach the block reader unchanged from a digits-only pattern group. Substantially decides the property given the trusted model of socket.recv.",
    technique="finite-domain interpretation of the response assembler and the readers over reply streams x segmentations (scripted recv) vs fixed RFC readings + effect ownership (who-may-call / who-may-write) + CFG cycle and exit classification + regex group analysis (structural reader rules are notices when the interpretation followed the readers)",
    ref="4/C05"),
 "C09": dict(
    text="Q1: path-sensitive constant propagation of each of the Client's reply-consuming functions over code in {OK, NO}: OK reaches only success "
         "returns, NO only False/None, no explicit raise after a reply; Q2: the status pattern's first group is exactly OK|NO|BYE (regex language "
         "equality), BYE raises Error, NO passes the error parser before Response, the assembler stops reading on Response; Q3: no capture group "
         "proved optional is used as bytes without a None test (followed into the error parser); Q4: the RFC 5804 language of NO-reply tails is "
         "included in what the error parser accepts before it may raise and errcode/errmsg are both set on every path; Q5: only the error parser "
         "writes errcode/errmsg from server data. Necessary conditions; the suite contains no NO or BYE reply at all.",
    technique="finite-domain path enumeration + regex language inclusion (DFA) + nullable-group analysis + CFG dominance + the reader interpretation of C05 (M7)",
    ref="4/C09"),
 "C08": dict(
    text="W1 sendall is called only by the command sender, every line ends in CRLF and the argument list reaches the wire only through the "
         "formatter; W2 every quoting branch of the formatter escapes backslash before double quote; W3 unquoted pass-through happens only under "
         "an isinstance test against a marker type that only the literal builder constructs (never by content); W4 the literal template announces "
         "len() of the very bytes that follow, non-synchronising, CRLF-separated, utf-8; W5 each public operation sends exactly its RFC 5804 verb as "
         "a constant, at most once per path, names as utf-8 bytes, sizes as int, raw channels carry constants/base64 only; W6 CR, LF and NUL are "
         "excluded before the quoting branch. Necessary conditions for every argument value; decoding by a real server is not decided.",
    technique="effect ownership + CFG edge-fact guards + finite-domain interpretation of the sender (every flag setting) and of the literal builder over sample values vs the wire format + AST template matching as fallback",
    ref="4/C08"),
 "C15": dict(
    text="Thin: only request/reply alternation is decided. K1 the sender performs its writes and then exactly one reply read on every normal path, "
         "the assembler is otherwise called only by the private greeting/capability reader (connect, TLS upgrade), the readers only by the "
         "assembler/error parser; K2 each public operation sends at most one command per path (finite-domain enumeration); K3 nobody else touches "
         "socket or buffer (M1, M2, W1); K4 a line is removed from the buffer where it is taken for interpretation. Agreement of the reported "
         "state with a reference server over histories is NOT decided.",
    technique="CFG dominance / cycle queries on the sender, intra-class call-graph ownership, finite-domain path enumeration, the reader interpretation of C05 (M7) over back-to-back replies",
    ref="4/C15"),
 "C14": dict(
    text="Dominance facts over the emulated branch of renamescript that hold for every server behaviour at every step: R1 delete(old) only on the "
         "success edge of put(new) and (when old was active) of setactive(new); R2 put(new) only after new was tested absent against both listing "
         "components (active name and other names); R3 the uploaded content is the unmodified, None-tested result of getscript(old); R4 only the "
         "parameters old/new, unmodified and in their roles, reach server operations; R5 a None listing is tested before unpacking; R6 finite-domain "
         "enumeration of all step outcomes: True iff the delete succeeded, other exits False/Error, no step out of order; R7 native RENAMESCRIPT "
         "(old,new) iff the capability is announced. Substantially decides the client side; content equality and server atomicity are not decided.",
    technique="finite-domain interpretation of the emulated rename over listings x server answers + CFG dominance with edge facts on call outcomes + def-use of the content/name arguments",
    ref="4/C14"),
 "C16": dict(
    text="U1 the supported list evaluates to [DIGEST-MD5, PLAIN, LOGIN, OAUTHBEARER]; U2 the dispatcher's constructed method exists for each entry; "
         "U3 finite-domain evaluation of the authenticator over every preferred mechanism x every subset/order of announced mechanisms x attempt "
         "outcome agrees with the reference selection (named implemented mechanism only; else first supported one announced; one attempt; none => "
         "no send, False; flag iff success); U4 symbolic byte templates of the PLAIN / LOGIN / OAUTHBEARER payloads over the parameters equal the "
         "RFC 4616 / LOGIN / RFC 7628 formats and credentials are plumbed as utf-8 in the right positions; U5 the gs2 authzid passes the saslname "
         "escaper; U6 no Python-2 remnants below the mechanisms (DIGEST-MD5: recorded known findings). RFC 2831 arithmetic is not decided.",
    technique="finite-domain path enumeration of the selection logic (incl. candidates computed by the caller) + symbolic byte-template evaluation of payload builders + finite-domain interpretation of the sender + name-resolution lint",
    ref="4/C16"),
 "C17": dict(
    text="D1 local def-use from the reply content (third element of the sender's result) in every function that receives it: it never reaches the "
         "size/status recognisers, so stored data is not taken for protocol; D2 the quoted-name pattern includes the RFC 5804 quoted-string language "
         "(regex language inclusion), its name group cannot hold an unescaped quote, and the name is unescaped; D3 literal payload kept apart from line "
         "text in the assembler (violated today: recorded known finding, with witness); D4 getscript returns the newline-join of all decoded lines with "
         "no filter, slice, strip or content-dependent branch; D5 ACTIVE is looked up only in the group after the name. Necessary conditions; equality "
         "with a server's store is not decided.",
    technique="local taint (def-use) from reply content to regex sinks + regex language inclusion (DFA) + finite-domain interpretation of listscripts over sample listings vs an RFC 5804 reference reading + AST shape of the decoders",
    ref="4/C17"),
 "C02": dict(
    text="Termination as a progress argument, exception-freedom as an escape analysis against the single try/except funnel of Parser.parse: X1 "
         "every lexer rule has minimum width >= 1 (regex analysis) and every cycle of the lexer loop passes a position update taken from a successful "
         "match at the current position; X2 the position is otherwise written only by one bounded replay conditional on an observed command-state "
         "change; X3 all other loops are parent walks / counting loops / for-loops over unmodified objects; X4 raise closure: every class raised "
         "in the call-graph closure of parse is caught by the funnel, token loop inside the try; X5 every decode is ASCII-only by token class, "
         "non-raising by error policy, or under the funnel catching UnicodeDecodeError; X6/X7 integer and constant-key subscripts are guarded; X8 "
         "registry names producible by the lookup scheme are concrete commands or rejected; X9-X11 format arity, state-slot call, verdict shape; "
         "L7 no polynomial-backtracking regex shape. Not covered: None current command typestate, resource errors.",
    technique="regex width/backtracking analysis + CFG cycle/dominance queries + call-graph raise closure + guarded-subscript dataflow + finite-domain interpretation of the lexer over sample texts (line bound, progress)",
    ref="4/C02"),
 "C07": dict(
    text="The gating argument decided structurally: E1 all 39 construct->extension bindings of a frozen reference (12 commands, 6 tags, 3 match-type "
         "values x 7 tests) are present in the statically evaluated command tables; E2/E3/E4 in the lookup function, the argument interpreter and the "
         "value-validity helper, acceptance (return of the instance / recording of the optional slot / True for an extension-bound value) is reached "
         "only on paths that crossed 'check disabled', 'no extension' or 'extension in registry' (CFG edge facts), and ExtensionNotLoaded names the "
         "extension found missing; E5 no call from parser.py disables a check; E6 the registry is written only by the parser reset (emptied) and "
         "RequireCommand.complete_cb, invoked only on ';'; E7 message text. Holds for every script because it holds on every path; 'first missing in "
         "script order' is not separately proved.",
    technique="constant evaluation of the command tables vs a reference + CFG dominance with edge facts on the three gates + finite-domain interpretation of the value gate over 144 cases + ownership of the registry",
    ref="4/C07"),
 "C13": dict(
    text="Effect analysis: H1 inventory of every module-level/class-level mutable object of the package (35+) and of every statement that can write "
         "it after import (rebinding, mutators, subscript stores, aliases followed through parameters): the only writable shared state is the "
         "extension registry (writers: parser reset, RequireCommand.complete_cb) and the command namespace (add_commands); H2 every Parser attribute "
         "a token handler writes is re-initialised to an empty value by the reset, the reset dominates the token loop, the lexer re-initialises "
         "pos/text; H3 the reset empties the class-level registry on every path; H4 no call from factory.py can read the registry (each call into "
         "the lookup / interpreter disables the check or is statically extension-free, with flow-sensitive typing of the receiver). Substantially "
         "decides history independence for all script sequences.",
    technique="who-may-write effect analysis with alias propagation + CFG dominance + table-based discharge of factory call sites",
    ref="4/C13"),
 "C18": dict(
    text="Z1 in Lexer.scan no position write lies on a path from the loop head to the yield (the position is the start of the current token while a "
         "handler raises); Z2 curlineno/curcolno match the reference formulas (1 + LF count before pos; pos - index of last LF), accepted in their "
         "equivalent slice / bounded-call forms; Z3 the handler builds error_pos from exactly those calls and len() of the loop's current token value "
         "and the text from the same line; Z4 the generator is iterated directly (lazy), so no position depends on later input; Z5 the only foreign "
         "position write is the width-bounded replay (rule X2). Necessary conditions; positions of late-detected errors are not decided.",
    technique="finite-domain interpretation of Lexer.__init__/scan (generator steps, emulated replay, reused lexer) and of parse()'s handler over sample texts vs the reference line/column/length (AST interpretation, no execution) + CFG dominance for the token holder; syntactic formula / path rules as fallback",
    ref="4/C18"),
 "C01": dict(
    text="Necessary conditions of 'accepts exactly the valid scripts', each decided for all inputs because it is decided on the code: L1/L2 every "
         "lexer rule selects the same token extents as an independently written RFC 5228 reference and overlapping rules are ordered as in the "
         "reference (regex -> automaton with one-symbol look-ahead, product construction, selection discipline proved from the pattern shape); "
         "L3/L4 flags, master-pattern construction, letter case; T1 the statically evaluated command tables (29 commands, 66 slots) equal a reviewed "
         "reference table, T2/T3 slot well-formedness and class-attribute consistency, T4 lookup-scheme exhaustiveness, T5 optional-slot "
         "reachability; P1-P9 state-machine disciplines (verdicts consumed, end-of-input typestate, role checks dominate adoption, bracket pairing, "
         "block/semicolon agreement, must_follow before recording, expected-set enforcement, lower-casing) as CFG dominance facts; G2-G6 argument-"
         "interpreter disciplines. That the state machine as a whole recognises exactly the grammar is NOT decided.",
    technique="regex-to-DFA language/extent comparison + constant evaluation of tables vs reference + CFG dominance with edge facts",
    ref="4/C01"),
 "C03": dict(
    text="Every accepted token is recorded or structurally consumed: P1 no verdict of the argument checker / addchild is dropped, P2 pending "
         "constructs at end of input are rejected, P5/P9 blocks only on controls that take them; P10 the tree containers (Parser.result, "
         "Command.children, arguments, extra_arguments) have exactly the expected writers and only append-style writes; P11 __up records the "
         "current top-level command exactly once, before the parent walk, with the comments collected since the previous one; G3/G4 every store "
         "uses the matched slot's own name as key and the unmodified incoming value under that slot's tests; G7 a positional optional slot is "
         "advanced past once filled; T3' reassign_arguments only moves values into empty slots. Tree equality with an independent RFC 8.2 parse "
         "is NOT decided.",
    technique="who-may-write ownership of the tree containers + CFG dominance/cycle queries on the recording sites + def-use of store keys/values",
    ref="4/C03"),
 "C04": dict(
    text="Thin - necessary conditions of the round trip, not the round trip: S1 the serializer has a branch for every value shape the recorder "
         "stores and decides list/command shapes before the string branch; S2 recorded values reach target.write without a lossy transformer "
         "(strip/replace/lower/slice...), except for list items that are not already complete quoted strings; S3 every constant fragment the "
         "serializer writes is tokenised by the automata of the CURRENT lexer rules into the punctuation it stands for, and every punctuation kind "
         "is produced by some fragment; S4 a text: block is unconditionally followed by a newline; S5 same args_definition, every present slot, "
         "every child, separators only between consecutive tests. Tree equality after re-parse and idempotence for all values are NOT decided.",
    technique="finite-domain interpretation of tosieve per slot form x value shape + AST/CFG shape analysis of the serializer + def-use of values to write sinks + static tokenisation of emitted constants with the lexer DFAs",
    ref="4/C04"),
 "C20": dict(
    text="Thin: Y1 add_commands writes the namespace the lookup reads, under the class's __name__ with the suffix the lookup appends, and the lookup "
         "rejects absent names (UnknownCommand) before indexing; Y2 every documented definition key is read by the interpreter/serializer (ignored "
         "keys are listed as notices); Y3 the generic interpreter disciplines (G2 pending parameter, G4 stores under slot tests, G5 failed match / "
         "unaccepted argument refused, G6 case-insensitive tags, G7 no positional refill) and table well-formedness (T2, T5) are stated on the "
         "interpreter itself and therefore hold for any registered definition. The accepted language per definition is NOT decided.",
    technique="namespace/key agreement between writer and reader (AST) + documented-key usage analysis + who-may-write on definition keys at registration + shared CFG dominance rules of the interpreter",
    ref="4/C20"),
 "C12": dict(
    text="O1 every insertion into `filters` and every write of an entry's name in the seven editing operations is dominated by the existence test "
         "raising FilterAlreadyExists; O2 update/replace make no list-level mutation, do not write `enabled`, and re-wrap a disabled entry; O3 "
         "movefilter removes the matched entry and re-inserts the same object at index-1 (up edge) / index+1 (otherwise) with early exits at 0 and "
         "len-1, the index variable counting iterations; O4 every mutation is dominated by the name-match edge and unknown names end in a falsy "
         "return; O5 enabled=False only together with wrapping and True only with unwrapping, both under the shared recogniser's state guard "
         "(sibling cross-check), getters derive from the same flag/recogniser. Equivalence with a list model over all histories is NOT decided.",
    technique="finite-domain interpretation of the seven operations over a three-filter set vs an ordered-unique-list model + CFG dominance with edge facts + AST affine check of the move indices + sibling cross-check enable/disable",
    ref="4/C12"),
 "C11": dict(
    text="Thin: N1 the renderer and the loader use the same marker attribute for names and the same one for descriptions (writer format "
         "<marker><value>\\n, reader startswith + removal of that marker), description only when non-empty / default ''; N2 the loader sets enabled = "
         "not recogniser(content) and the recogniser's shape is what disablefilter builds; N3 in the parser, hash comments are collected for "
         "hash_comment tokens only, attached to top-level commands only, the collector emptied right after and in the reset; N4 loader appends in "
         "result order and requires capabilities in string and list form, renderer writes require first then filters in order. Set equality after "
         "a reload over all reachable states is NOT decided.",
    technique="finite-domain interpretation of the loader and the renderer over small sets (default and custom markers) vs a reference + writer/reader agreement on AST templates + CFG guards on the comment plumbing",
    ref="4/C11"),
 "C06": dict(
    text="F1 the renderer writes the require command (built from the whole `requires` list) before the first filter and `requires` is append-only; "
         "F2 every construction site of a command whose table entry has an extension (or whose name is not constant) is followed on every path by "
         "the matching require; F3 the factory's tag->extension derivation is table-driven and covers `extension` and `extension_values`; F4 every "
         "tag checked with check_extension=False is preceded by that derivation for the same command and tag; F5a every user value reaching a "
         "string / string-list argument passes a quoting wrapper of the factory; F5b every quoting wrapper escapes backslash before double quote; F6 "
         "a possibly-list value is not used as a dictionary key. Necessary conditions over the product of kinds x tags x values; the parser's "
         "verdict on the rendered text is NOT decided.",
    technique="cross-table agreement (factory vs command tables) + CFG post-dominance of require calls + def-use from user values to quoting wrappers",
    ref="4/C06"),
 "C19": dict(
    text="Thin: B1 every condition kind the builder instantiates (header, exists, size, envelope, address, body, currentdate) is in the reader's "
         "class tuple and defines args_as_tuple, and every kind the builder can negate has a folding branch; B2 the read-back functions neither "
         "decide list-vs-string by the presence of a comma nor split rendered text on commas (4 sites violate this today: recorded known findings "
         "with witnesses); B3 the getters obtain the filter through getfilter, which unwraps a disabled filter. Equality of supplied and read-back "
         "values for all definitions is NOT decided.",
    technique="exhaustiveness cross-check builder vs reader (AST) + finite-domain interpretation of get_filter_conditions over stand-in condition trees (negation folding and scope, no raise) + lint for lossy re-parsing transformers on the read-back path",
    ref="4/C19"),
}
NA = {}

# additions of rounds 5-7 (DESIGN.md 10.10 - 10.12), appended to the claim texts
ADD = {
 "C01": " Added: G11 - the argument interpreter (check_next_arg + iscomplete) interpreted call by call over 12 sample slot definitions x ~100 "
        "argument sequences x extension sets against the slot format; P16 - the `,`/`)` expectation after a closed test is decided on the ancestor the "
        "climb ends on; P17 - every token that can follow a test reaches the reassignment of a test with an optional leading argument before the "
        "enclosing list consumes it (found the hasflag-in-a-test-list defect, repaired by 0ff9c98); L7 compares a repeat with the first set of what follows.",
 "C02": " Added: X16 - bytes-only operations on parse()'s own parameter come after its str->bytes conversion; the crash clause of G11 (the argument "
        "interpreter raises nothing but its own three exceptions on the sample sequences and on the repository's own valid_for definitions); X17 - "
        "locals the funnel's handler reads are bound before the try; X4 leaves out raises taken only for non-str/bytes arguments "
        "or re-entered parse(); X7 looks at the guards of every reachable call site.",
 "C03": " Added: G11 (answers, recorded arguments, completeness on sample sequences), T3' by evaluation (reassign_arguments of every overriding "
        "command on its own definition), P16, P17, P14 generalised (list renewed at hand-over).",
 "C04": " Added: S6 also for the end of a command (block with / without arguments, `;`, nothing) and tags in mixed case; G11 for what is recorded.",
 "C07": " Added: E2 (lookup), E6 (complete_cb), E4 (value gate) and E3/E7 (through G11) decided by evaluation over registries that also hold parts "
        "of the names needed; every extension name of the tables required alone must load nothing but itself.",
 "C08": " Added: W10 - each formatted argument read back as a server reads it (29 values); W9 with lines at the sender's own block sizes; the "
        "lifetime rule for a client-level write accumulator reached through a local; SD1 - no mutable parameter default is modified in place or kept.",
 "C10": " Added: the reader rules of C05 (M1-M7) are part of this check (`ended with OK` is what the readers make of the bytes).",
 "C11": " Added: the lexer rules of C01 (L1-L4) are part of this check (the saved script must be one the parser accepts).",
 "C12": " Added: the caller's match type reaches the builder; a guard around a bare action is recognised as a guard.",
 "C13": " Added: SD1 (no mutable parameter default modified or kept in parser.py / commands.py / factory.py); H2 pairing rule for a `parse is running` flag (set at entry, cleared in a finally, nothing raising in between); H4 for a registry "
        "read through an instance.",
 "C16": " Added: connect's ordering rules (A1-A7 of C10) and the reader rules of C05 are part of this check.",
 "C19": " Added: the loader rules of C11 (N1-N4) are part of this check (`... and on a set reloaded from its rendered script`).",
 "C20": " Added: G11, P14, H2 and the lexer rules of C01 are part of this check.",
 "C06": " Added: the lexer rules of C01 (L1-L4) are part of this check (what the factory escapes correctly must lex as part of its string).",
 "C14": " Added: the reader rules of C05 (M1-M7) are part of this check (the copied content is what the readers make of the GETSCRIPT reply).",
 "C18": " Added: the lexer rules of C01 (L1-L4) are part of this check (the reported length is the extent the token rules give the token).",
}

def rules_now(pid):
    """The rule set as it runs today (rules were added and shared across properties while building, DESIGN.md 10.3), read from the
    evidence file the check wrote."""
    try:
        ev = json.load(open(os.path.join(HERE, "evidence", "%s.json" % pid)))
        rules = ev["coverage"]["rules"]
        ids = sorted(rules, key=lambda r: (r.rstrip("0123456789'ab"), len(r), r))
        return (" Rules run today (own and shared with sibling properties; one line each in the evidence file; the program model is "
                "normalised first - unknown helpers inlined, constants and access-path locals propagated, DESIGN.md 10.8): " + ", ".join(ids) + ".")
    except Exception:
        return ""


def main():
    checks = []
    for p in props:
        pid = p["id"]
        if pid in CLAIMED:
            c = CLAIMED[pid]
            checks.append({
                "property_id": pid,
                "quick_cmd": "/venv/bin/python /verif/check %s --tier quick" % pid,
                "thorough_cmd": "/venv/bin/python /verif/check %s --tier thorough" % pid,
                "evidence_file": "/verif/evidence/%s.json" % pid,
                "replay_cmd_template": "/venv/bin/python /verif/check --replay {path}",
                "engine": "sa",
                "level_claimed": {"category": "other", "text": c["text"] + ADD.get(pid, "") + rules_now(pid), "design_ref": "DESIGN.md section " + c["ref"] + " and 10.3"},
                "level_note": NOTE,
                "technique": c["technique"],
            })
    na = []
    for p in props:
        if p["id"] not in CLAIMED:
            na.append({"property_id": p["id"], "reason": NA.get(p["id"], "check under construction in this session (static-analysis rules designed in DESIGN.md section 4); not yet claimed")})
    fixes = subprocess.run(["git", "-C", "/repo", "log", "--format=%H %s"], capture_output=True, text=True).stdout.splitlines()
    fixes = [l.split()[0] for l in fixes if l.split(" ", 1)[1].startswith("fix:")]
    m = {"version": 1,
         "setup_cmd": "/venv/bin/python /verif/check --selfcheck",
         "hooks": {"guard": "SIEVELIB_VERIF",
                   "enable": "no hooks: the checks are static analyses of /repo/sievelib/*.py; nothing in /repo is instrumented, so the guard is never consulted",
                   "baseline_off_cmd": "cd /repo && /venv/bin/python -m pytest -q -p no:cacheprovider --timeout=900",
                   "source_commits": [], "add_only": True},
         "engines": [{"name": "sa", "path": "/verif/sa", "serves_properties": sorted(CLAIMED),
                      "kind_free_text": "repository-specific static analysis over the Python AST: program model, statement CFG with dominance and edge facts, call graph, constant / finite-domain evaluation, regex-to-DFA language comparison"}],
         "checks": checks,
         "notes": "Static analysis only (DESIGN.md). Exit codes: 0 holds, 1 violation (VIOLATION line), 2 ANALYSIS-ERROR (no verdict). Known findings: /verif/known_findings.json. There are no hook commits in /repo (source_commits is empty); the unguarded `fix:` commits that repair genuine defects are: " + ", ".join(reversed([f[:7] for f in fixes])) + ".",
         "not_applicable": na}
    json.dump(m, open(os.path.join(HERE, "MANIFEST.json"), "w"), indent=1)
    print("claimed", sorted(CLAIMED), "n/a", len(na))
if __name__ == "__main__":
    main()
