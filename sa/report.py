"""Findings, known findings, evidence files and exit codes."""
import json
import os
import time

from .model import AnalysisError, Program

VERIF = os.path.dirname(os.path.dirname(os.path.abspath(__file__)))
KNOWN_FILE = os.path.join(VERIF, "known_findings.json")
EVIDENCE_DIR = os.path.join(VERIF, "evidence")


class Finding:
    def __init__(self, rule, qualname, key, message, file=None, line=None, path=None, witness=None):
        self.rule = rule
        self.qualname = qualname
        self.key = key
        self.message = message
        self.file = file
        self.line = line
        self.path = path
        self.witness = witness
        self.known = None

    def ident(self):
        return (self.rule, self.qualname, self.key)

    def as_dict(self):
        d = {"rule": self.rule, "qualname": self.qualname, "key": self.key, "message": self.message,
             "file": self.file, "line": self.line}
        if self.path:
            d["path"] = self.path
        if self.witness:
            d["witness"] = self.witness
        return d


class Ctx:
    """One run of one property's check."""

    def __init__(self, prop_id, tier="quick", repo="/repo", quiet=False):
        self.prop = prop_id
        self.tier = tier
        self.repo = repo
        self.quiet = quiet
        self.t0 = time.time()
        self.program = Program(repo)
        from rules.normalise import normalise
        self.normalisation = normalise(self.program)
        self.findings = []
        self.instances = []  # (rule, instance, verdict, detail)
        self.notices = []
        self.rules = {}  # rule -> description
        self.trusted = []
        self.assumptions = []
        self.explanation = ""
        self.not_decided = ""
        self.extra = {}
        self._cfgs = {}

    # ---- engine caches -------------------------------------------------------
    def cfg(self, func):
        from .cfg import CFG
        k = id(func.node)
        if k not in self._cfgs:
            self._cfgs[k] = CFG(func.node, self.program)
        return self._cfgs[k]

    # ---- recording -----------------------------------------------------------
    def rule(self, rid, text):
        self.rules[rid] = text

    def holds(self, rule, instance, detail=None):
        self.instances.append((rule, instance, "holds", detail))

    def violation(self, rule, func_or_qual, key, message, node=None, file=None, line=None, path=None,
                  witness=None, instance=None):
        qual = getattr(func_or_qual, "qualname", func_or_qual)
        dem = getattr(self, "_demoted", {}).get(rule)
        if isinstance(dem, tuple):
            by_, only_, keep_ = dem
            dem = by_ if (only_ is None or qual in only_) and not any(str(key).startswith(k_) for k_ in keep_) else None
        if dem is not None:
            # a structural (idiom-bound, sufficient) rule that is not satisfied while the clause it supports was decided by
            # evaluation: recorded, not reported (see DESIGN 10.9)
            self.notice(rule, "structural rule not satisfied in %s (%s); the clause is decided by %s" % (qual, str(message)[:160], dem))
            return None
        if file is None and hasattr(func_or_qual, "file"):
            file = func_or_qual.file
        if line is None and node is not None:
            line = getattr(node, "lineno", None)
        if line is None and hasattr(func_or_qual, "node"):
            line = func_or_qual.node.lineno
        if node is not None and getattr(node, "_inl_origin", None):
            # statement copied from an inlined helper: report the helper's own line
            message = "%s [in helper %s, inlined at line %d]" % (message, node._inl_origin[0], int(line or 0))
            line = node._inl_origin[1] or line
        if isinstance(line, float):
            line = int(line)
        f = Finding(rule, qual, key, message, file, line, path, witness)
        # one finding per identity
        for g in self.findings:
            if g.ident() == f.ident():
                return g
        self.findings.append(f)
        self.instances.append((rule, instance or key, "violated", message))
        return f

    def demote(self, rules, by, only_in=None, keep_keys=()):
        """Until restore(): violations of the given structural rules become notices (the clause was decided by `by`); with only_in,
        only those located in the named functions; findings whose key starts with one of keep_keys are reported as usual (clauses the
        evaluation does not cover: all-inputs language rules, error conversion)."""
        prev = dict(getattr(self, "_demoted", {}))
        cur = dict(prev)
        for r in rules:
            cur[r] = by if (only_in is None and not keep_keys) else (by, set(only_in) if only_in is not None else None, tuple(keep_keys))
        self._demoted = cur
        return prev

    def restore(self, prev):
        self._demoted = prev

    def notice(self, rule, msg):
        if (rule, msg) not in self.notices:
            self.notices.append((rule, msg))

    def need(self, rule, what, n, minimum):
        """Fail closed when a rule finds fewer instances than were confirmed
        by hand: a rule that matches nothing must not pass vacuously."""
        if n < minimum and isinstance(getattr(self, "_demoted", {}).get(rule), str):
            self.notice(rule, "only %d %s found (%d expected): idiom not recognised; the clause is decided by %s" % (n, what, minimum, self._demoted[rule]))
            return
        if n < minimum:
            raise AnalysisError(rule, "only %d %s found, at least %d expected (anchor vanished or idiom not "
                                      "recognised)" % (n, what, minimum))

    def fail(self, rule, why):
        raise AnalysisError(rule, why)


def load_known():
    if not os.path.exists(KNOWN_FILE):
        return []
    with open(KNOWN_FILE) as fp:
        return json.load(fp).get("findings", [])


def finish(ctx):
    """Print the verdict lines, write evidence, return the exit code."""
    known = [k for k in load_known() if k.get("status") == "known"]
    viol = []
    hits = []
    for f in ctx.findings:
        for k in known:
            if k["rule"] == f.rule and k["qualname"] == f.qualname and k["key"] == f.key:
                f.known = k
                break
        if f.known:
            hits.append(f)
        else:
            viol.append(f)
    out = []
    for r, m in ctx.notices:
        out.append("NOTICE property=%s rule=%s %s" % (ctx.prop, r, m))
    for f in hits:
        out.append("KNOWN-FINDING: property=%s rule=%s %s:%s %s -- %s" % (
            ctx.prop, f.rule, f.file, f.line, f.qualname, f.known.get("what", f.message)))
    replay_dir = os.path.join(EVIDENCE_DIR, "replay")
    n = 0
    for f in viol:
        n += 1
        os.makedirs(replay_dir, exist_ok=True)
        rp = os.path.join(replay_dir, "%s-%s-%d.json" % (ctx.prop, f.rule, n))
        with open(rp, "w") as fp:
            json.dump({"property": ctx.prop, "repo": ctx.repo, "tier": ctx.tier, **f.as_dict()}, fp, indent=1)
        out.append("FINDING property=%s rule=%s %s:%s in %s: %s%s" % (
            ctx.prop, f.rule, f.file, f.line, f.qualname, f.message,
            (" | witness: %s" % f.witness) if f.witness else ""))
        out.append("VIOLATION property=%s replay=%s" % (ctx.prop, rp))
    nrules = len({i[0] for i in ctx.instances})
    nhold = sum(1 for i in ctx.instances if i[2] == "holds")
    out.append("SUMMARY property=%s tier=%s rules=%d instances=%d holds=%d known=%d violations=%d wall=%.2fs" % (
        ctx.prop, ctx.tier, nrules, len(ctx.instances), nhold, len(hits), len(viol), time.time() - ctx.t0))
    if not ctx.quiet:
        print("\n".join(out))
    write_evidence(ctx, hits, viol)
    return 1 if viol else 0


def write_evidence(ctx, hits, viol):
    os.makedirs(EVIDENCE_DIR, exist_ok=True)
    per_rule = {}
    for rule, inst, verdict, detail in ctx.instances:
        d = per_rule.setdefault(rule, {"rule": ctx.rules.get(rule, ""), "instances": 0, "holds": 0, "violated": 0})
        d["instances"] += 1
        d["holds" if verdict == "holds" else "violated"] += 1
    samples = []
    seen_rules = set()
    for rule, inst, verdict, detail in ctx.instances:
        if rule in seen_rules and verdict == "holds":
            continue
        seen_rules.add(rule)
        samples.append({"rule": rule, "instance": str(inst), "verdict": verdict,
                        **({"detail": str(detail)[:300]} if detail else {})})
    distinct = len({(i[0], str(i[1])) for i in ctx.instances})
    obligations = len(ctx.instances)
    discharged = sum(1 for i in ctx.instances if i[2] == "holds") + len(hits)
    prog = ctx.program
    ev = {
        "property_id": ctx.prop,
        "tier": ctx.tier,
        "seed": int(os.environ.get("VERIF_SEED", "0") or 0),
        "level": "other",
        "coverage": {
            "explanation": ctx.explanation + (" NOT DECIDED: " + ctx.not_decided if ctx.not_decided else ""),
            "evaluations": obligations,
            "distinct_nontrivial": distinct,
            "rule": "one evaluation = one rule instance (call site, branch, table slot, regex, path obligation) "
                    "located in the current source of the analysed tree; distinct = distinct (rule, instance) pairs",
            "obligations": obligations,
            "discharged": discharged,
            "samples": samples[:60],
            "instances": [{"rule": r, "instance": str(i)[:160], "verdict": v} for r, i, v, _ in ctx.instances[:500]],
            "rules": per_rule,
            "analysed": {
                "repo": ctx.repo,
                "modules": sorted(m.relpath for m in prog.modules.values()),
                "functions": len(prog.all_funcs()),
                "classes": len(list(prog.all_classes())),
                "normalisation": getattr(ctx, "normalisation", None),
            },
            "known_findings_hit": [f.as_dict() for f in hits],
            "violations": [f.as_dict() for f in viol],
            "notices": ["%s: %s" % n for n in ctx.notices],
            "trusted_base": ctx.trusted or [
                "hand-written model of the Python subset the repository uses (statement CFG, short-circuit "
                "conditions, explicit raise, name mangling, decorators as wrappers)",
                "re._parser (stdlib regex parser) for regex syntax trees",
                "the normalisation pass (sa/inline.py): inlining of private helpers unknown to the rule set and forward substitution "
                "of access-path locals preserve the meaning of the analysed functions",
            ],
            "checker_cmd": "/venv/bin/python /verif/check %s --tier %s" % (ctx.prop, ctx.tier),
            "exhaustive": False,
            **ctx.extra,
        },
        "assumptions": ctx.assumptions,
        "wall_s": round(time.time() - ctx.t0, 3),
        "violations": len(viol),
    }
    # evidence about /repo only: scratch trees (self-validation) must not overwrite it
    if os.path.realpath(ctx.repo) == os.path.realpath("/repo") or os.environ.get("VERIF_EVIDENCE_DIR"):
        d = os.environ.get("VERIF_EVIDENCE_DIR", EVIDENCE_DIR)
        os.makedirs(d, exist_ok=True)
        with open(os.path.join(d, "%s.json" % ctx.prop), "w") as fp:
            json.dump(ev, fp, indent=1, default=str)
    return ev
