"""Path-sensitive constant propagation ("finite-domain evaluation").

An abstract interpreter over the syntax tree of a function with the abstract
domain  Const(v) | Tup | Ref | Unknown.  A rule supplies the abstract values of
a few atoms (parameters, results of named calls) from small finite domains;
the interpreter enumerates the paths of the function under those values,
forking where a branch condition is Unknown, and reports for every path its
exit kind (return <abstract value> / raise <class>) and the ordered list of
*effect events* the rule asked to observe.  Loops over constant sequences are
unrolled, other loops are explored for 0..2 iterations.  Calls to methods of
the same class can be inlined (bounded depth).  No code of the repository is
executed and no constraint solver is involved.
"""
import ast
import re as _re
from .inline import InlineBlock, InlineLeave
import itertools

from .model import norm


class Unknown:
    _n = itertools.count()

    def __init__(self, tag=""):
        self.tag = tag
        self.id = next(Unknown._n)

    def __repr__(self):
        return "?%s" % self.tag


class MList(list):
    """A list of a scenario that the interpreted code may change in place (identity and aliasing are kept)."""


class EnumView:
    """enumerate(<shared list>): read element by element while the loop runs, as Python does (a loop that edits the list it walks over
    sees its own edits)."""

    def __init__(self, lst, start=0):
        self.lst, self.start = lst, start

    def __repr__(self):
        return "<enumerate of %r>" % (self.lst,)


class MDict(dict):
    """A dict of a scenario that the interpreted code may change in place."""


class Rec:
    """A stand-in for an object of the program inside a constant: its class name and the attributes a scenario gives it."""

    def __init__(self, cls, **fields):
        self.cls = cls
        self.fields = fields

    def __repr__(self):
        return "<%s %s>" % (self.cls, ", ".join(sorted(self.fields)))


def record_types_of(*modules):
    """{class name: [(field, default expression or None), ...]} for the NamedTuple / dataclass record types of the given modules."""
    out = {}
    for m in modules:
        if m is None:
            continue
        for c in m.classes.values():
            bases = {norm(b).split(".")[-1] for b in c.node.bases}
            decos = {norm(d).split(".")[-1].split("(")[0] for d in c.node.decorator_list}
            if "NamedTuple" in bases or "dataclass" in decos:
                out[c.name] = [(st.target.id, st.value) for st in c.node.body if isinstance(st, ast.AnnAssign) and isinstance(st.target, ast.Name)]
    return out


class Obj(Unknown):
    """An unknown value that is known not to be None (bytes received, an object just built)."""

    def __repr__(self):
        return "?obj:%s" % self.tag


class Const:
    def __init__(self, v):
        self.v = v

    def __repr__(self):
        return "Const(%r)" % (self.v,)

    def __eq__(self, o):
        return isinstance(o, Const) and type(o.v) is type(self.v) and o.v == self.v

    def __hash__(self):
        return hash(repr(self.v))


class BoundRe:
    """A bound method of a compiled pattern / match object held in a variable."""

    def __init__(self, obj, name):
        self.obj, self.name = obj, name

    def __repr__(self):
        return "<%s of %r>" % (self.name, self.obj)


class LamV:
    """A lambda of the interpreted function as a value (called later, in the state of that moment)."""

    def __init__(self, node):
        self.node = node

    def __repr__(self):
        return "<lambda@%s:%s>" % (getattr(self.node, "lineno", "?"), getattr(self.node, "col_offset", "?"))


class Tup:
    def __init__(self, items):
        self.items = list(items)

    def __repr__(self):
        return "Tup(%s)" % ", ".join(map(repr, self.items))


class Ref:
    """Reference to a bound method obtained statically (getattr(self, "<const>"),
    self.meth)."""

    def __init__(self, name):
        self.name = name

    def __repr__(self):
        return "Ref(%s)" % self.name


class Exc:
    """An exception propagating out of an expression."""

    def __init__(self, name, node=None):
        self.name = name
        self.node = node

    def __repr__(self):
        return "Exc(%s)" % self.name


class Inline:
    """Oracle answer: interpret the callee's body.  self_param: the parameter of a plain function that receives the caller's own object
    (`helper(self)`): the callee then sees the caller's `self.x` values under that name."""

    def __init__(self, func, self_param=None):
        self.func = func  # sa.model.Func
        self.self_param = self_param


class State:
    def __init__(self, env=None, events=None, facts=None):
        self.env = dict(env or {})
        self.events = list(events or [])
        self.facts = dict(facts or {})

    # Set by a scenario that hands in MList / MDict / Rec objects.  These objects are shared by all states (in-place changes keep
    # identity and aliasing, as in the program); this is only meaningful when the evaluation does not fork, so such scenarios accept
    # a result only when exactly one path comes out.
    heap = False

    def copy(self):
        return State(self.env, self.events, self.facts)


class Path:
    def __init__(self, kind, value, state, node=None):
        self.kind = kind  # return / raise
        self.value = value
        self.events = state.events
        self.env = state.env
        self.facts = state.facts
        self.node = node

    def __repr__(self):
        return "<Path %s %r events=%r>" % (self.kind, self.value, self.events)


class TooManyPaths(Exception):
    pass


BUILTIN_TYPES = {"str": str, "bytes": bytes, "list": list, "tuple": tuple, "dict": dict, "int": int, "bool": bool, "float": float, "set": set}
RE_FLAGS = {"I", "IGNORECASE", "M", "MULTILINE", "S", "DOTALL", "X", "VERBOSE", "A", "ASCII", "U", "UNICODE"}
PURE_STR = {"lower", "upper", "replace", "strip", "lstrip", "rstrip", "encode", "decode", "startswith", "endswith",
            "split", "format", "join", "capitalize", "title", "splitlines", "count", "find", "rfind", "index", "rindex", "partition", "rpartition"}


class Interp:
    def __init__(self, func_node, clsname=None, oracle=None, max_paths=6000, selfname=None, loop_unroll=2,
                 depth=0, max_depth=3, exc_bases=None, resolve=None):
        self.unknowns = []  # names of calls answered with Unknown (shared with the interpreters of inlined callees)
        self.resolve = resolve  # name -> python constant (module-level bindings), or raises KeyError
        self.f = func_node
        self.clsname = clsname
        self.oracle = oracle
        self.max_paths = max_paths
        self.loop_unroll = loop_unroll
        self.depth = depth
        self.max_depth = max_depth
        self.exc_bases = exc_bases or {}
        args = func_node.args.posonlyargs + func_node.args.args
        self.selfname = selfname if selfname is not None else (args[0].arg if args and clsname else None)

    # ---- public ---------------------------------------------------------------
    def run(self, env, state=None):
        st = state.copy() if state is not None else State()
        st.env.update(env)
        a = self.f.args
        pos = a.posonlyargs + a.args
        for p, d in zip(pos[len(pos) - len(a.defaults):], a.defaults):
            if p.arg not in st.env:
                vals = self.eval(d, st)
                st.env[p.arg] = vals[0][0] if vals else Unknown(p.arg)
        for p, d in zip(a.kwonlyargs, a.kw_defaults):
            if p.arg not in st.env and d is not None:
                vals = self.eval(d, st)
                st.env[p.arg] = vals[0][0] if vals else Unknown(p.arg)
        for p in pos + a.kwonlyargs:
            if p.arg not in st.env:
                st.env[p.arg] = Unknown(p.arg)
        out = []
        for kind, val, s, node in self.block(self.f.body, st):
            if kind in ("return", "raise"):
                out.append(Path(kind, val, s, node))
            else:
                out.append(Path("return", Const(None), s, None))
        return out

    # ---- statements -----------------------------------------------------------
    def block(self, stmts, st):
        states = [st]
        results = []
        for s in stmts:
            nxt = []
            for cur in states:
                for r in self.stmt(s, cur):
                    if r[0] == "next":
                        nxt.append(r[2])
                    else:
                        results.append(r)
            states = nxt
            if len(states) + len(results) > self.max_paths:
                raise TooManyPaths()
            if not states:
                break
        for cur in states:
            results.append(("next", None, cur, None))
        return results

    def _vals(self, e, st, out, node):
        """Evaluate e; exceptional results are appended to `out` as raise
        outcomes, normal (value, state) pairs are returned."""
        ok = []
        for v, s in self.eval(e, st):
            if isinstance(v, Exc):
                out.append(("raise", v.name, s, v.node or node))
            else:
                ok.append((v, s))
        return ok

    def stmt(self, s, st):
        out = []
        if isinstance(s, ast.Expr) and isinstance(s.value, ast.YieldFrom):
            # delegation to another generator of the same object: its steps are this generator's steps
            if isinstance(s.value.value, ast.Call):
                for v, s2 in self._vals(s.value.value, st, out, s):
                    if isinstance(v, Unknown):
                        self.unknowns.append("yield from")
                    out.append(("next", None, s2, None))
                return out
            self.unknowns.append("yield from")
            return [("next", None, st, None)]
        if isinstance(s, ast.Expr) and isinstance(s.value, ast.Yield):
            # a generator step: the yielded value and the object's state at that moment are recorded; `yield_hook(interp, value, state)`
            # (when set) plays the consumer and returns the states in which the generator is resumed
            vals = self._vals(s.value.value, st, out, s) if s.value.value is not None else [(Const(None), st)]
            for v, s2 in vals:
                snap = {k: x for k, x in s2.env.items() if self.selfname and k.startswith(self.selfname + ".")}
                s2.events.append(("yield", v, snap))
                hook = getattr(self, "yield_hook", None)
                for s3 in (hook(self, v, s2) if hook is not None else [s2]):
                    out.append(("next", None, s3, None))
            return out
        if isinstance(s, ast.Expr):
            for v, s2 in self._vals(s.value, st, out, s):
                out.append(("next", None, s2, None))
            return out
        if isinstance(s, ast.Assign):
            for v, s2 in self._vals(s.value, st, out, s):
                err = None
                for t in s.targets:
                    err = err or self.assign(t, v, s2)
                out.append(("raise", err, s2, s) if err else ("next", None, s2, None))
            return out
        if isinstance(s, ast.AnnAssign):
            if s.value is None:
                return [("next", None, st, None)]
            for v, s2 in self._vals(s.value, st, out, s):
                self.assign(s.target, v, s2)
                out.append(("next", None, s2, None))
            return out
        if isinstance(s, ast.AugAssign) and isinstance(s.op, ast.Add) and isinstance(s.target, (ast.Name, ast.Attribute)):
            # `buf += data` on a bytearray extends the object in place: every name bound to it sees the change
            key = s.target.id if isinstance(s.target, ast.Name) else self.attr_key(s.target)
            cur = st.env.get(key) if key else None
            if isinstance(cur, Const) and isinstance(cur.v, bytearray):
                for v, s2 in self._vals(s.value, st, out, s):
                    if isinstance(v, Const) and isinstance(v.v, (bytes, bytearray)):
                        cur.v.extend(v.v)
                        out.append(("next", None, s2, None))
                    else:
                        s2.env[key] = Unknown("bytearray")
                        out.append(("next", None, s2, None))
                return out
        if isinstance(s, ast.AugAssign):
            e = ast.BinOp(left=_as_load(s.target), op=s.op, right=s.value)
            ast.copy_location(e, s)
            for v, s2 in self._vals(e, st, out, s):
                self.assign(s.target, v, s2)
                out.append(("next", None, s2, None))
            return out
        if isinstance(s, ast.Return):
            if s.value is None:
                return [("return", Const(None), st, s)]
            for v, s2 in self._vals(s.value, st, out, s):
                out.append(("return", v, s2, s))
            return out
        if isinstance(s, ast.Raise):
            name = "Exception"
            cur = [st]
            if s.exc is not None:
                e = s.exc.func if isinstance(s.exc, ast.Call) else s.exc
                name = e.id if isinstance(e, ast.Name) else (e.attr if isinstance(e, ast.Attribute) else "Exception")
                if isinstance(s.exc, ast.Call):
                    # the values the exception is built from travel with the state (`except X as e: e.code`)
                    curv = [([], c) for c in cur]
                    for a in s.exc.args:
                        curv = [(vs + [v], s2) for vs, c in curv for (v, s2) in self._vals(a, c, out, s)]
                    cur = []
                    for vs, c in curv:
                        c = c.copy()
                        c.env["@exc"] = Const(Rec(name, args=list(vs)))
                        cur.append(c)
            return out + [("raise", name, c, s) for c in cur]
        if isinstance(s, ast.If):
            for truth_, s2 in self.branch(s.test, st, out, s):
                out.extend(self.block(s.body if truth_ else s.orelse, s2))
            return out
        if isinstance(s, ast.While):
            return self.loop_while(s, st)
        if isinstance(s, ast.For):
            return self.loop_for(s, st)
        if isinstance(s, ast.Try):
            return self.try_(s, st)
        if isinstance(s, ast.With):
            cur = [st]
            for item in s.items:
                nxt = []
                for c in cur:
                    for v, s2 in self._vals(item.context_expr, c, out, s):
                        if item.optional_vars is not None:
                            self.assign(item.optional_vars, Unknown("with"), s2)
                        nxt.append(s2)
                cur = nxt
            for c in cur:
                out.extend(self.block(s.body, c))
            return out
        if isinstance(s, ast.Delete) and not State.heap and len(s.targets) == 1 and isinstance(s.targets[0], ast.Subscript) \
                and isinstance(s.targets[0].value, (ast.Name, ast.Attribute)):
            # `del buf[a:b]` / `del lst[i]` on a variable holding a constant sequence: the variable gets the shortened value
            # (a bytearray is modelled by its bytes: sound as long as nothing aliases it, which the readers never do)
            t = s.targets[0]
            key = t.value.id if isinstance(t.value, ast.Name) else self.attr_key(t.value)
            cur = st.env.get(key) if key else None
            if isinstance(cur, Const) and isinstance(cur.v, (bytes, bytearray, list)):
                sl = t.slice
                parts = [sl.lower, sl.upper, sl.step] if isinstance(sl, ast.Slice) else [sl]
                vals, s2 = [], st
                ok_ = True
                for pe in parts:
                    if pe is None:
                        vals.append(None)
                        continue
                    r_ = self.eval(pe, s2)
                    if len(r_) != 1 or not isinstance(r_[0][0], Const):
                        ok_ = False
                        break
                    vals.append(r_[0][0].v)
                    s2 = r_[0][1]
                if ok_:
                    inplace = isinstance(cur.v, bytearray)
                    seq = cur.v if inplace else (bytearray(cur.v) if isinstance(cur.v, bytes) else list(cur.v))
                    try:
                        if isinstance(sl, ast.Slice):
                            del seq[slice(*vals)]
                        else:
                            del seq[vals[0]]
                    except Exception as ex:
                        return [("raise", type(ex).__name__, s2, s)]
                    if inplace:
                        return [("next", None, s2, None)]
                    s3 = s2.copy()
                    s3.env[key] = Const(bytes(seq) if isinstance(cur.v, bytes) else seq)
                    return [("next", None, s3, None)]
        if isinstance(s, ast.Delete) and State.heap:
            for t in s.targets:
                if isinstance(t, ast.Subscript) and not isinstance(t.slice, ast.Slice):
                    base = self.eval(t.value, st)
                    ks = self.eval(t.slice, st)
                    if len(base) == 1 and isinstance(base[0][0], Const) and isinstance(base[0][0].v, (MList, MDict)) and len(ks) == 1 \
                            and isinstance(ks[0][0], Const):
                        try:
                            del base[0][0].v[ks[0][0].v]
                        except Exception as ex:
                            return [("raise", type(ex).__name__, st, s)]
                        continue
                st.events.append(("delete", norm(t), None))
            return [("next", None, st, None)]
        if isinstance(s, InlineBlock):
            lab = "leave:%s" % getattr(s, "label", "")
            for r in self.block(s.body, st):
                out.append(("next", None, r[2], None) if r[0] == lab else r)
            return out
        if isinstance(s, InlineLeave):
            return [("leave:%s" % getattr(s, "label", ""), None, st, s)]
        if isinstance(s, ast.Break):
            return [("break", None, st, s)]
        if isinstance(s, ast.Continue):
            return [("continue", None, st, s)]
        return [("next", None, st, None)]

    def loop_while(self, s, st):
        out = []
        states = [st]
        const_true = isinstance(s.test, ast.Constant) and bool(s.test.value)
        for it in range(self.loop_unroll + 1):
            nxt = []
            for cur in states:
                for truth_, s2 in self.branch(s.test, cur, out, s, remember=False):
                    if not truth_:
                        out.extend(self.block(s.orelse, s2) if s.orelse else [("next", None, s2, None)])
                        continue
                    if it == self.loop_unroll:
                        if not const_true:
                            out.append(("next", None, s2, None))
                        continue
                    for r in self.block(s.body, s2):
                        if r[0] in ("next", "continue"):
                            nxt.append(r[2])
                        elif r[0] == "break":
                            out.append(("next", None, r[2], None))
                        else:
                            out.append(r)
            states = nxt
            if len(states) + len(out) > self.max_paths:
                raise TooManyPaths()
        return out

    def loop_for(self, s, st):
        out = []
        for itv, s0 in self._vals(s.iter, st, out, s):
            if isinstance(itv, Const) and isinstance(itv.v, (MList, EnumView)):
                # a shared (mutable) list: elements are fetched one by one, so that edits made by the body are seen
                lst = itv.v if isinstance(itv.v, MList) else itv.v.lst
                states, i = [s0], 0
                while states and i < len(lst) and i < 200:
                    item = Const(lst[i]) if isinstance(itv.v, MList) else Const((itv.v.start + i, lst[i]))
                    nxt = []
                    for cur in states:
                        c2 = cur.copy()
                        self.assign(s.target, item, c2)
                        for r in self.block(s.body, c2):
                            if r[0] in ("next", "continue"):
                                nxt.append(r[2])
                            elif r[0] == "break":
                                out.append(("next", None, r[2], None))
                            else:
                                out.append(r)
                    states = nxt
                    i += 1
                for cur in states:
                    out.extend(self.block(s.orelse, cur) if s.orelse else [("next", None, cur, None)])
                continue
            if isinstance(itv, Const) and isinstance(itv.v, (list, tuple, str, bytes, dict, set, frozenset)):
                seq = [Const(x) for x in itv.v]
                exact = True
            elif isinstance(itv, Tup):
                seq = list(itv.items)
                exact = True
            elif isinstance(itv, Const) and itv.v is None:
                out.append(("raise", "TypeError", s0, s))
                continue
            else:
                seq = [Unknown("elem") for _ in range(self.loop_unroll)]
                exact = False
            states = [s0]
            for item in seq:
                nxt = []
                for cur in states:
                    if not exact:
                        c0 = cur.copy()
                        out.extend(self.block(s.orelse, c0) if s.orelse else [("next", None, c0, None)])
                    c2 = cur.copy()
                    self.assign(s.target, item, c2)
                    for r in self.block(s.body, c2):
                        if r[0] in ("next", "continue"):
                            nxt.append(r[2])
                        elif r[0] == "break":
                            out.append(("next", None, r[2], None))
                        else:
                            out.append(r)
                states = nxt
                if len(states) + len(out) > self.max_paths:
                    raise TooManyPaths()
            for cur in states:
                out.extend(self.block(s.orelse, cur) if s.orelse else [("next", None, cur, None)])
        return out

    def try_(self, s, st):
        out = []
        for r in self.block(s.body, st):
            if r[0] == "raise":
                handled = False
                for h in s.handlers:
                    if self.handler_matches(h, r[1]):
                        s2 = r[2].copy()
                        if h.name:
                            s2.env[h.name] = Unknown("exc")
                            pay = s2.env.get("@exc")
                            hook = getattr(self, "exc_fields", None)
                            if isinstance(pay, Const) and isinstance(pay.v, Rec) and pay.v.cls == r[1] and hook is not None:
                                flds = hook(r[1], pay.v.fields["args"])
                                if flds is not None:
                                    s2.env[h.name] = Const(Rec(r[1], **flds))
                        s2.env.pop("@exc", None)
                        out.extend(self.block(h.body, s2))
                        handled = True
                        break
                if not handled:
                    out.append(r)
            elif r[0] == "next" and s.orelse:
                out.extend(self.block(s.orelse, r[2]))
            else:
                out.append(r)
        if s.finalbody:
            res = []
            for r in out:
                for f in self.block(s.finalbody, r[2]):
                    res.append((r[0], r[1], f[2], r[3]) if f[0] == "next" else f)
            out = res
        return out

    def handler_matches(self, h, name):
        if h.type is None:
            return True
        types = h.type.elts if isinstance(h.type, ast.Tuple) else [h.type]
        names = [t.id if isinstance(t, ast.Name) else getattr(t, "attr", None) for t in types]
        if name in names or "Exception" in names or "BaseException" in names:
            return True
        return bool(set(names) & set(self.exc_bases.get(name, ())))

    def assign(self, target, v, st):
        """returns an exception name if the assignment itself raises"""
        if isinstance(target, ast.Name):
            st.env[target.id] = v
        elif isinstance(target, (ast.Tuple, ast.List)):
            if isinstance(v, Tup) and len(v.items) == len(target.elts):
                for t, x in zip(target.elts, v.items):
                    self.assign(t, x, st)
            elif isinstance(v, Const) and isinstance(v.v, (tuple, list)) and len(v.v) == len(target.elts):
                for t, x in zip(target.elts, v.v):
                    self.assign(t, Const(x), st)
            elif isinstance(v, Const) and v.v is None:
                return "TypeError"
            else:
                for t in target.elts:
                    self.assign(t, Unknown("unpack"), st)
        elif isinstance(target, ast.Attribute):
            key = self.attr_key(target)
            if State.heap and not (isinstance(target.value, ast.Name) and target.value.id == self.selfname):
                base = self.eval(target.value, st)
                if len(base) == 1 and isinstance(base[0][0], Const) and isinstance(base[0][0].v, Rec):
                    base[0][0].v.fields[target.attr] = v.v if isinstance(v, Const) else v
                    st.events.append(("store", norm(target), v))
                    return None
            if key:
                st.env[key] = v
            st.events.append(("store", norm(target), v))
        elif isinstance(target, ast.Subscript) and State.heap and isinstance(target.slice, ast.Slice):
            # lst[a:b] = values on a shared list
            st.events.append(("store", norm(target), v))
            base = self.eval(target.value, st)
            if len(base) == 1 and isinstance(base[0][0], Const) and isinstance(base[0][0].v, MList) and isinstance(v, Const) \
                    and isinstance(v.v, (list, tuple, dict)):
                bounds = []
                for pe in (target.slice.lower, target.slice.upper, target.slice.step):
                    if pe is None:
                        bounds.append(None)
                        continue
                    r_ = self.eval(pe, st)
                    if len(r_) != 1 or not isinstance(r_[0][0], Const):
                        return None
                    bounds.append(r_[0][0].v)
                try:
                    base[0][0].v[slice(*bounds)] = list(v.v)
                except Exception as ex:
                    return type(ex).__name__
            return None
        elif isinstance(target, ast.Subscript) and State.heap and not isinstance(target.slice, ast.Slice):
            st.events.append(("store", norm(target), v))
            base = self.eval(target.value, st)
            ks = self.eval(target.slice, st)
            if len(base) == 1 and isinstance(base[0][0], Const) and isinstance(base[0][0].v, (MDict, MList)) and len(ks) == 1 \
                    and isinstance(ks[0][0], Const):
                try:
                    base[0][0].v[ks[0][0].v] = v.v if isinstance(v, Const) else v
                except Exception as ex:
                    return type(ex).__name__
                return None
            if len(base) == 1 and isinstance(base[0][0], Const) and isinstance(base[0][0].v, Rec) and len(ks) == 1 and isinstance(ks[0][0], Const) \
                    and isinstance(base[0][0].v.fields.get("arguments"), dict):
                base[0][0].v.fields["arguments"][ks[0][0].v] = v.v if isinstance(v, Const) else v
                return None
        elif isinstance(target, ast.Subscript):
            st.events.append(("store", norm(target), v))
            # a container built in a local: the variable gets a NEW constant with the item stored
            if isinstance(target.value, ast.Name) and isinstance(st.env.get(target.value.id), Const) \
                    and isinstance(st.env[target.value.id].v, (dict, list)) and not isinstance(target.slice, ast.Slice):
                ks = self.eval(target.slice, st)
                if len(ks) == 1 and isinstance(ks[0][0], Const) and isinstance(v, Const):
                    import copy as _copy
                    cur = _copy.deepcopy(st.env[target.value.id].v)
                    try:
                        cur[ks[0][0].v] = v.v
                        st.env[target.value.id] = Const(cur)
                    except Exception:
                        st.env[target.value.id] = Unknown("container")
                else:
                    st.env[target.value.id] = Unknown("container")
        return None

    @staticmethod
    def attr_key(node):
        if isinstance(node, ast.Attribute) and isinstance(node.value, ast.Name):
            return "%s.%s" % (node.value.id, node.attr)
        return None

    # ---- conditions -----------------------------------------------------------
    def branch(self, test, st, out, node, remember=True):
        res = []
        for v, s2 in self._vals(test, st, out, node):
            t = truth(v)
            if t is None:
                key = norm(test)
                if remember and key in s2.facts:
                    res.append((s2.facts[key], s2))
                    continue
                a = s2.copy()
                b = s2.copy()
                if remember:
                    a.facts[key] = True
                    b.facts[key] = False
                res.append((True, a))
                res.append((False, b))
            else:
                res.append((t, s2))
        return res

    # ---- expressions ----------------------------------------------------------
    def seq(self, exprs, st):
        """Evaluate expressions left to right -> list of (values|Exc, state)."""
        combos = [([], st)]
        for x in exprs:
            nxt = []
            for items, s in combos:
                if isinstance(items, Exc):
                    nxt.append((items, s))
                    continue
                for v, s2 in self.eval(x, s):
                    nxt.append((v if isinstance(v, Exc) else items + [v], s2))
            combos = nxt
        return combos

    def eval(self, e, st):
        """-> list of (value | Exc, state)"""
        if isinstance(e, ast.Constant):
            return [(Const(e.value), st)]
        if isinstance(e, ast.Lambda) and not (e.args.defaults or e.args.kw_defaults or e.args.vararg or e.args.kwarg or e.args.kwonlyargs):
            return [(Const(LamV(e)), st)]  # a closure of this function: its free names are read when it is called
        if isinstance(e, ast.Name):
            if e.id in st.env:
                return [(st.env[e.id], st)]
            if self.resolve is not None:
                try:
                    return [(Const(self.resolve(e.id)), st)]
                except KeyError:
                    pass
            if e.id in BUILTIN_TYPES:
                return [(Const(BUILTIN_TYPES[e.id]), st)]
            ge = getattr(self, "global_exprs", None)
            if ge and e.id in ge and e.id not in getattr(self, "_ge_busy", ()):
                # a module-level binding the resolver cannot fold (a record built once: NO_MATCH = SlotMatch(False)): its expression,
                # evaluated in an empty frame
                self._ge_busy = set(getattr(self, "_ge_busy", ())) | {e.id}
                try:
                    r_ = self.eval(ge[e.id], State())
                finally:
                    self._ge_busy = self._ge_busy - {e.id}
                if len(r_) == 1 and isinstance(r_[0][0], Const):
                    return [(r_[0][0], st)]
            return [(Unknown(e.id), st)]
        if isinstance(e, ast.Attribute):
            key = self.attr_key(e)
            if key and key in st.env:
                return [(st.env[key], st)]
            if isinstance(e.value, ast.Name) and e.value.id == "re" and "re" not in st.env and e.attr in RE_FLAGS:
                return [(Const(getattr(_re, e.attr)), st)]
            if isinstance(e.value, ast.Name) and e.value.id == self.selfname:
                hk = getattr(self, "self_attr_hook", None)
                if hk is not None:
                    r_ = hk(self, e, st)  # a property of the object's own class, read through self
                    if r_ is not None:
                        return r_
                cae = getattr(self, "class_attr_exprs", None)
                if cae:
                    # a class-level binding read through self / cls (`__bare_lf = re.compile(...)` in the class body)
                    nm = e.attr if e.attr in cae else ("_%s%s" % ((self.clsname or "").lstrip("_"), e.attr) if e.attr.startswith("__") else None)
                    if nm in cae and nm not in getattr(self, "_ge_busy", ()):
                        self._ge_busy = set(getattr(self, "_ge_busy", ())) | {nm}
                        try:
                            r_ = self.eval(cae[nm], State())
                        finally:
                            self._ge_busy = self._ge_busy - {nm}
                        if len(r_) == 1 and isinstance(r_[0][0], Const):
                            return [(r_[0][0], st)]
                return [(Unknown(norm(e)), st)]
            res = []
            for v, s in self.eval(e.value, st):
                if isinstance(v, Exc):
                    res.append((v, s))
                elif isinstance(v, Const) and v.v is None:
                    res.append((Exc("AttributeError", e), s))
                elif isinstance(v, Const) and isinstance(v.v, _re.Match) and e.attr in ("lastgroup", "lastindex", "string", "pos", "endpos"):
                    res.append((Const(getattr(v.v, e.attr)), s))
                elif isinstance(v, Const) and isinstance(v.v, (_re.Pattern, _re.Match)) and e.attr in (
                        "match", "search", "fullmatch", "sub", "findall", "split", "finditer", "group", "groups", "start", "end", "span", "groupdict"):
                    res.append((Const(BoundRe(v.v, e.attr)), s))  # `match = PATTERN.match` - called later
                elif isinstance(v, Const) and isinstance(v.v, _re.Pattern) and e.attr in ("pattern", "flags", "groups", "groupindex"):
                    res.append((Const(dict(v.v.groupindex) if e.attr == "groupindex" else getattr(v.v, e.attr)), s))
                elif isinstance(v, Const) and isinstance(v.v, Rec):
                    if e.attr in v.v.fields:
                        res.append((Const(v.v.fields[e.attr]), s))
                    elif getattr(self, "getattr_hook", None) is not None:
                        res.extend(self.getattr_hook(self, v.v, e, s))
                    else:
                        res.append((Unknown(norm(e)), s))
                else:
                    res.append((Unknown(norm(e)), s))
            return res
        if isinstance(e, (ast.Tuple, ast.List)):
            res = []
            for items, s in self.seq(e.elts, st):
                if isinstance(items, Exc):
                    res.append((items, s))
                elif isinstance(e, ast.List) and all(isinstance(i, Const) for i in items):
                    res.append((Const([i.v for i in items]), s))
                elif isinstance(e, ast.Tuple) and items and all(isinstance(i, Const) for i in items):
                    res.append((Const(tuple(i.v for i in items)), s))
                else:
                    res.append((Tup(items), s))
            return res
        if isinstance(e, ast.Dict) and all(k is not None for k in e.keys):
            res = []
            for items, s in self.seq(list(e.keys) + list(e.values), st):
                if isinstance(items, Exc):
                    res.append((items, s))
                elif all(isinstance(i, Const) for i in items):
                    n_ = len(e.keys)
                    try:
                        res.append((Const({k.v: v.v for k, v in zip(items[:n_], items[n_:])}), s))
                    except TypeError:
                        res.append((Unknown("dict"), s))
                else:
                    res.append((Unknown("dict"), s))
            return res
        if isinstance(e, ast.BoolOp):
            is_and = isinstance(e.op, ast.And)
            res = []
            cur = [st]
            n = len(e.values)
            for i, x in enumerate(e.values):
                nxt = []
                for s in cur:
                    for v, s2 in self.eval(x, s):
                        if isinstance(v, Exc) or i == n - 1:
                            res.append((v, s2))
                            continue
                        t = truth(v)
                        if t is None:
                            key = norm(x)
                            if key in s2.facts:
                                t = s2.facts[key]
                            else:
                                a, b = s2.copy(), s2.copy()
                                a.facts[key] = True
                                b.facts[key] = False
                                if is_and:
                                    nxt.append(a)
                                    res.append((Const(False), b))
                                else:
                                    res.append((Const(True), a))
                                    nxt.append(b)
                                continue
                        if t == is_and:
                            nxt.append(s2)
                        else:
                            res.append((v, s2))
                cur = nxt
            return res
        if isinstance(e, ast.UnaryOp):
            res = []
            for v, s in self.eval(e.operand, st):
                if isinstance(v, Exc):
                    res.append((v, s))
                elif isinstance(e.op, ast.Not):
                    t = truth(v)
                    if t is None:
                        key = norm(e.operand)
                        res.append((Const(not s.facts[key]) if key in s.facts else Unknown("not"), s))
                    else:
                        res.append((Const(not t), s))
                elif isinstance(v, Const) and isinstance(e.op, ast.USub) and isinstance(v.v, (int, float)):
                    res.append((Const(-v.v), s))
                else:
                    res.append((Unknown("unary"), s))
            return res
        if isinstance(e, ast.Compare):
            res = []
            for items, s in self.seq([e.left] + list(e.comparators), st):
                if isinstance(items, Exc):
                    res.append((items, s))
                elif len(e.ops) == 1:
                    res.append((compare(e.ops[0], items[0], items[1]), s))
                else:
                    # a < b < c: the conjunction of the neighbouring comparisons (all operands were evaluated above; for constants
                    # that is the same as Python's left-to-right evaluation with short-circuit)
                    vals = [compare(op, items[i], items[i + 1]) for i, op in enumerate(e.ops)]
                    if all(isinstance(v_, Const) for v_ in vals):
                        res.append((Const(all(bool(v_.v) for v_ in vals)), s))
                    elif any(isinstance(v_, Const) and not v_.v for v_ in vals):
                        res.append((Const(False), s))
                    else:
                        res.append((Unknown("cmp"), s))
            return res
        if isinstance(e, ast.IfExp):
            res = []
            out = []
            for t, s in self.branch(e.test, st, out, e):
                res.extend(self.eval(e.body if t else e.orelse, s))
            for o in out:
                res.append((Exc(o[1], o[3]), o[2]))
            return res
        if isinstance(e, ast.BinOp):
            res = []
            for items, s in self.seq([e.left, e.right], st):
                res.append((items, s) if isinstance(items, Exc) else (binop(e.op, items[0], items[1]), s))
            return res
        if isinstance(e, ast.Call):
            return self.call(e, st)
        if isinstance(e, ast.Subscript):
            if isinstance(e.slice, ast.Slice):
                parts = [e.value] + [x for x in (e.slice.lower, e.slice.upper, e.slice.step) if x is not None]
                res = []
                for items, s in self.seq(parts, st):
                    if isinstance(items, Exc):
                        res.append((items, s))
                        continue
                    if all(isinstance(i, Const) for i in items):
                        it = iter(items[1:])
                        lo = next(it).v if e.slice.lower is not None else None
                        hi = next(it).v if e.slice.upper is not None else None
                        stp = next(it).v if e.slice.step is not None else None
                        try:
                            res.append((Const(items[0].v[lo:hi:stp]), s))
                            continue
                        except Exception as ex:
                            res.append((Exc(type(ex).__name__, e), s))
                            continue
                    res.append((Unknown("slice"), s))
                return res
            res = []
            for items, s in self.seq([e.value, e.slice], st):
                if isinstance(items, Exc):
                    res.append((items, s))
                    continue
                v, k = items
                if isinstance(v, Tup) and isinstance(k, Const) and isinstance(k.v, int) \
                        and -len(v.items) <= k.v < len(v.items):
                    res.append((v.items[k.v], s))
                elif isinstance(v, Const) and v.v is None:
                    res.append((Exc("TypeError", e), s))
                elif isinstance(v, Const) and isinstance(v.v, Rec) and isinstance(k, Const):
                    args_ = v.v.fields.get("arguments")
                    if isinstance(args_, dict) and k.v in args_:
                        res.append((Const(args_[k.v]), s))
                    else:
                        res.append((Exc("KeyError", e), s))
                elif isinstance(v, Const) and isinstance(k, Const):
                    try:
                        res.append((Const(v.v[k.v]), s))
                    except Exception as ex:
                        res.append((Exc(type(ex).__name__, e), s))
                else:
                    res.append((Unknown("sub"), s))
            return res
        if isinstance(e, ast.Starred):
            return self.eval(e.value, st)
        if isinstance(e, ast.JoinedStr):
            fvs = [p for p in e.values if isinstance(p, ast.FormattedValue)]
            parts = [p.value for p in fvs]
            res = []
            for items, s in self.seq(parts, st):
                if isinstance(items, Exc):
                    res.append((items, s))
                    continue
                if all(isinstance(i, Const) for i in items) and all(p.format_spec is None and p.conversion in (-1, 115, 114) for p in fvs):
                    it = iter(items)
                    txt = ""
                    try:
                        for p in e.values:
                            if isinstance(p, ast.Constant):
                                txt += str(p.value)
                            else:
                                v = next(it).v
                                txt += repr(v) if p.conversion == 114 else (str(v) if p.conversion == 115 else format(v, ""))
                        res.append((Const(txt), s))
                        continue
                    except Exception:
                        pass
                res.append((Unknown("fstr"), s))
            return res
        if isinstance(e, (ast.ListComp, ast.GeneratorExp)) and len(e.generators) == 1 and not e.generators[0].is_async \
                and isinstance(e.generators[0].target, ast.Name):
            # over a known sequence: one value per item, on a single path (anything that branches or is unknown makes the result unknown)
            g = e.generators[0]
            its = self.eval(g.iter, st)
            if len(its) == 1 and isinstance(its[0][0], Const) and isinstance(its[0][0].v, (list, tuple)) and len(its[0][0].v) <= 16:
                out, s = [], its[0][1]
                ok = True
                saved = s.env.get(g.target.id, None)
                had = g.target.id in s.env
                for item in its[0][0].v:
                    s.env[g.target.id] = Const(item)
                    keep = True
                    for c in g.ifs:
                        r = self.eval(c, s)
                        t = truth(r[0][0]) if len(r) == 1 and not isinstance(r[0][0], Exc) else None
                        if t is None:
                            ok = False
                            break
                        if not t:
                            keep = False
                            break
                    if not ok:
                        break
                    if not keep:
                        continue
                    r = self.eval(e.elt, s)
                    if len(r) != 1 or not isinstance(r[0][0], Const):
                        ok = False
                        break
                    out.append(r[0][0].v)
                    if r[0][1] is not s:
                        # what the element's evaluation did (events of calls) belongs to the path
                        s.events[:] = r[0][1].events
                        for k_, v_ in r[0][1].env.items():
                            if k_ != g.target.id:
                                s.env[k_] = v_
                if had:
                    s.env[g.target.id] = saved
                else:
                    s.env.pop(g.target.id, None)
                if ok:
                    return [(Const(out), s)]
            return [(Unknown("comprehension"), st)]
        return [(Unknown(type(e).__name__), st)]

    def call(self, e, st):
        f = e.func
        pre = []
        if isinstance(f, ast.Attribute):
            pre = [f.value]
        elif not isinstance(f, ast.Name):
            pre = [f]
        exprs = pre + list(e.args) + [k.value for k in e.keywords]
        res = []
        for items, s in self.seq(exprs, st):
            if isinstance(items, Exc):
                res.append((items, s))
                continue
            recv = items[0] if pre else None
            args = items[len(pre):len(pre) + len(e.args)]
            kwv = items[len(pre) + len(e.args):]
            kw = {k.arg: v for k, v in zip(e.keywords, kwv)}
            res.extend(self.apply(e, recv, args, kw, s))
        return res

    def apply(self, e, recv, args, kw, st):
        f = e.func
        callee = None
        name = None
        if isinstance(f, ast.Name):
            callee = st.env.get(f.id)
            name = callee.name if isinstance(callee, Ref) else f.id
        elif isinstance(f, ast.Attribute):
            name = f.attr
            if isinstance(f.value, ast.Name) and f.value.id == self.selfname:
                name = "self." + f.attr
        rts = getattr(self, "record_types", None)
        if rts and isinstance(f, ast.Name) and f.id in rts and f.id not in st.env:
            flds = rts[f.id]
            vals = {}
            ok_ = len(args) <= len(flds) and all(k in dict(flds) for k in kw)
            if ok_:
                for (fn_, _d), a_ in zip(flds, args):
                    vals[fn_] = a_
                for k_, v_ in kw.items():
                    vals[k_] = v_
                for fn_, d_ in flds:
                    if fn_ not in vals:
                        if d_ is None:
                            ok_ = False
                            break
                        dv = self.eval(d_, st)
                        if len(dv) != 1 or isinstance(dv[0][0], Exc):
                            ok_ = False
                            break
                        vals[fn_] = dv[0][0]
            if ok_ and all(isinstance(v_, Const) for v_ in vals.values()):
                rec = Rec(f.id, **{k_: v_.v for k_, v_ in vals.items()})
                rec.order = [fn_ for fn_, _ in flds]
                return [(Const(rec), st)]
        if isinstance(callee, Const) and isinstance(callee.v, BoundRe) and all(isinstance(a, Const) for a in list(args) + list(kw.values())):
            try:
                r_ = getattr(callee.v.obj, callee.v.name)(*[a.v for a in args], **{k: v.v for k, v in kw.items()})
                return [(Const(list(r_) if callee.v.name == "finditer" else r_), st)]
            except Exception as ex:
                return [(Exc(type(ex).__name__, e), st)]
        if isinstance(callee, Const) and isinstance(callee.v, LamV) and not kw and len(args) == len(callee.v.node.args.args):
            s2 = st.copy()
            saved = {}
            for p_, a_ in zip(callee.v.node.args.args, args):
                saved[p_.arg] = s2.env.get(p_.arg)
                s2.env[p_.arg] = a_
            out_ = []
            for v_, s3 in self.eval(callee.v.node.body, s2):
                for k_, old_ in saved.items():
                    if old_ is None:
                        s3.env.pop(k_, None)
                    else:
                        s3.env[k_] = old_
                out_.append((v_, s3))
            return out_
        if self.oracle is not None:
            r = self.oracle(self, e, name, recv, args, kw, st)
            if isinstance(r, Inline):
                return self.inline(r.func, e, args, kw, st, r.self_param)
            if r is not None:
                out = []
                for item in r:
                    if isinstance(item, Exc):
                        out.append((item, st.copy()))
                        continue
                    v, ev = item
                    s2 = st.copy()
                    if ev is not None:
                        s2.events.append(ev)
                    out.append((v, s2))
                return out
        if isinstance(f, ast.Name) and not isinstance(callee, Ref):
            if f.id == "getattr" and len(args) >= 2 and isinstance(args[1], Const) and isinstance(args[1].v, str):
                if isinstance(e.args[0], ast.Name) and e.args[0].id == self.selfname:
                    return [(Ref("self." + args[1].v), st)]
                return [(Unknown("getattr"), st)]
            if f.id == "isinstance" and len(args) == 2 and isinstance(args[0], Const) and isinstance(args[1], Const) and (
                    isinstance(args[1].v, type) or (isinstance(args[1].v, tuple) and all(isinstance(t, type) for t in args[1].v))):
                return [(Const(isinstance(args[0].v, args[1].v)), st)]
            if f.id == "type" and len(args) == 1 and isinstance(args[0], Const):
                return [(Const(type(args[0].v)), st)]
            if f.id == "enumerate" and 1 <= len(args) <= 2 and isinstance(args[0], Const) and isinstance(args[0].v, MList) \
                    and all(isinstance(a, Const) for a in args) and not kw:
                return [(Const(EnumView(args[0].v, args[1].v if len(args) == 2 else 0)), st)]
            if f.id == "enumerate" and 1 <= len(args) <= 2 and isinstance(args[0], Const) and isinstance(args[0].v, (list, tuple)) \
                    and all(isinstance(a, Const) for a in args) and not kw:
                start = args[1].v if len(args) == 2 else 0
                return [(Const([(start + i, x) for i, x in enumerate(args[0].v)]), st)]
            if f.id == "len" and args and isinstance(args[0], Const):
                try:
                    return [(Const(len(args[0].v)), st)]
                except Exception:
                    return [(Exc("TypeError", e), st)]
            if f.id in ("min", "max", "abs", "sum", "any", "all", "ord", "chr", "repr", "divmod", "round", "reversed", "range", "zip") and args \
                    and all(isinstance(a, Const) for a in args) and not kw:
                try:
                    r_ = {"min": min, "max": max, "abs": abs, "sum": sum, "any": any, "all": all, "ord": ord, "chr": chr, "repr": repr,
                          "divmod": divmod, "round": round, "reversed": reversed, "range": range, "zip": zip}[f.id](*[a.v for a in args])
                    if f.id in ("reversed", "range", "zip"):
                        r_ = list(r_)
                        if len(r_) > 10000:
                            return [(Unknown("range"), st)]
                    return [(Const(r_), st)]
                except Exception as ex:
                    return [(Exc(type(ex).__name__, e), st)]
            if f.id in ("bytearray", "memoryview") and len(args) <= 1 and all(isinstance(a, Const) and isinstance(a.v, (bytes, bytearray)) for a in args) \
                    and not kw:
                return [(Const(bytearray(args[0].v) if args else bytearray()) if f.id == "bytearray" else Const(bytes(args[0].v)), st)]
            if f.id in ("set", "frozenset", "list", "dict") and not args and not kw:
                return [(Const({"set": set, "frozenset": frozenset, "list": list, "dict": dict}[f.id]()), st)]
            if f.id in ("int", "str", "bool", "bytes", "list", "tuple", "sorted", "set", "frozenset") and len(args) == 1 \
                    and isinstance(args[0], Const) and not kw:
                try:
                    return [(Const({"int": int, "str": str, "bool": bool, "bytes": bytes, "list": list, "tuple": tuple,
                                    "sorted": sorted, "set": set, "frozenset": frozenset}[f.id](args[0].v)), st)]
                except Exception as ex:
                    return [(Exc(type(ex).__name__, e), st)]
        if isinstance(f, ast.Attribute) and f.attr == "fromkeys" and isinstance(f.value, ast.Name) and f.value.id == "dict" and "dict" not in st.env \
                and 1 <= len(args) <= 2 and all(isinstance(a, Const) for a in args) and not kw:
            try:
                return [(Const(dict.fromkeys(*[a.v for a in args])), st)]  # (insertion-ordered: the de-duplication idiom)
            except Exception as ex:
                return [(Exc(type(ex).__name__, e), st)]
        if isinstance(f, ast.Attribute) and isinstance(recv, Const) and isinstance(recv.v, (MList, MDict)) and not kw \
                and f.attr in ("append", "extend", "insert", "remove", "pop", "clear", "index", "count", "update", "setdefault", "get", "keys",
                               "values", "items", "copy"):
            if all(isinstance(a, Const) for a in args):
                try:
                    r_ = getattr(recv.v, f.attr)(*[a.v for a in args])
                    if f.attr in ("keys", "values", "items"):
                        r_ = list(r_)
                    return [(Const(r_), st)]
                except Exception as ex:
                    return [(Exc(type(ex).__name__, e), st)]
            return [(Unknown("call:%s" % f.attr), st)]
        if isinstance(f, ast.Attribute) and isinstance(recv, Const) and type(recv.v) is list and f.attr in ("remove", "insert", "pop", "clear", "sort", "reverse") \
                and not kw and isinstance(f.value, (ast.Name, ast.Attribute)):
            key = f.value.id if isinstance(f.value, ast.Name) else self.attr_key(f.value)
            if key is not None and key in st.env:
                s2 = st.copy()
                if all(isinstance(a, Const) for a in args):
                    cur = list(recv.v)
                    try:
                        r_ = getattr(cur, f.attr)(*[a.v for a in args])
                    except Exception as ex:
                        return [(Exc(type(ex).__name__, e), st)]
                    s2.env[key] = Const(cur)
                    return [(Const(r_), s2)]
                s2.env[key] = Unknown("list")
                return [(Unknown("call:%s" % f.attr), s2)]
        if isinstance(f, ast.Attribute) and isinstance(recv, Const) and isinstance(recv.v, list) and f.attr in ("append", "extend") \
                and len(args) == 1 and not kw and isinstance(f.value, (ast.Name, ast.Attribute)):
            # list building: the receiver variable gets a NEW constant (states of other paths keep theirs)
            key = f.value.id if isinstance(f.value, ast.Name) else self.attr_key(f.value)
            if key is not None and key in st.env:
                s2 = st.copy()
                a0 = args[0]
                if isinstance(a0, Const) and (f.attr == "append" or isinstance(a0.v, (list, tuple))):
                    s2.env[key] = Const(recv.v + ([a0.v] if f.attr == "append" else list(a0.v)))
                else:
                    s2.env[key] = Unknown("list")
                return [(Const(None), s2)]
        if isinstance(f, ast.Attribute) and isinstance(recv, Const) and isinstance(recv.v, (bytes, bytearray)) and f.attr in ("extend", "clear") \
                and isinstance(f.value, (ast.Name, ast.Attribute)) and not kw and all(isinstance(a, Const) for a in args):
            if isinstance(recv.v, bytearray):
                if f.attr == "clear":
                    recv.v.clear()
                else:
                    recv.v.extend(args[0].v)
                return [(Const(None), st)]
            key = f.value.id if isinstance(f.value, ast.Name) else self.attr_key(f.value)
            if key is not None and key in st.env:
                s2 = st.copy()
                s2.env[key] = Const(b"" if f.attr == "clear" else bytes(recv.v) + bytes(args[0].v))
                return [(Const(None), s2)]
        if isinstance(f, ast.Attribute) and isinstance(recv, Const) and isinstance(recv.v, set) and f.attr in ("add", "discard", "update", "remove") \
                and isinstance(f.value, ast.Name) and f.value.id in st.env and not kw:
            s2 = st.copy()
            if all(isinstance(a, Const) for a in args):
                cur = set(recv.v)
                try:
                    getattr(cur, f.attr)(*[a.v for a in args])
                    s2.env[f.value.id] = Const(cur)
                    return [(Const(None), s2)]
                except Exception as ex:
                    return [(Exc(type(ex).__name__, e), st)]
            s2.env[f.value.id] = Unknown("set")
            return [(Const(None), s2)]
        if isinstance(f, ast.Attribute) and isinstance(recv, Const) and isinstance(recv.v, dict) and f.attr in ("update", "setdefault") \
                and isinstance(f.value, ast.Name) and f.value.id in st.env and not kw:
            s2 = st.copy()
            if all(isinstance(a, Const) for a in args):
                import copy as _copy
                cur = _copy.deepcopy(recv.v)
                try:
                    r = getattr(cur, f.attr)(*[a.v for a in args])
                    s2.env[f.value.id] = Const(cur)
                    return [(Const(r), s2)]
                except Exception as ex:
                    return [(Exc(type(ex).__name__, e), st)]
            s2.env[f.value.id] = Unknown("container")
            return [(Unknown("call:%s" % f.attr), s2)]
        # regular expressions over constants: the stdlib engine applied to a constant pattern and a constant subject
        if isinstance(f, ast.Attribute) and isinstance(f.value, ast.Name) and f.value.id == "re" and "re" not in st.env \
                and f.attr in ("compile", "match", "search", "fullmatch", "sub", "findall", "split", "escape", "finditer") \
                and all(isinstance(a, Const) for a in list(args) + list(kw.values())):
            try:
                r_ = getattr(_re, f.attr)(*[a.v for a in args], **{k: v.v for k, v in kw.items()})
                return [(Const(list(r_) if f.attr == "finditer" else r_), st)]
            except Exception as ex:
                return [(Exc(type(ex).__name__, e), st)]
        if ((isinstance(f, ast.Attribute) and isinstance(f.value, ast.Name) and f.value.id == "bisect" and "bisect" not in st.env) or (
                isinstance(f, ast.Name) and f.id not in st.env)) and (f.attr if isinstance(f, ast.Attribute) else f.id) in (
                "bisect_left", "bisect_right", "bisect") and len(args) in (2, 3, 4) and all(isinstance(a, Const) for a in args) and not kw:
            import bisect as _bisect
            try:
                return [(Const(getattr(_bisect, f.attr if isinstance(f, ast.Attribute) else f.id)(*[a.v for a in args])), st)]
            except Exception as ex:
                return [(Exc(type(ex).__name__, e), st)]
        if isinstance(f, ast.Attribute) and isinstance(f.value, ast.Name) and f.value.id == "textwrap" and "textwrap" not in st.env \
                and f.attr in ("indent", "dedent") and all(isinstance(a, Const) and isinstance(a.v, str) for a in list(args) + list(kw.values())):
            import textwrap as _tw
            try:
                return [(Const(getattr(_tw, f.attr)(*[a.v for a in args], **{k: v.v for k, v in kw.items()})), st)]
            except Exception as ex:
                return [(Exc(type(ex).__name__, e), st)]
        if isinstance(f, ast.Attribute) and isinstance(recv, Const) and isinstance(recv.v, (_re.Pattern, _re.Match)):
            ok_ = ("match", "search", "fullmatch", "sub", "findall", "split", "finditer") if isinstance(recv.v, _re.Pattern) else (
                "group", "groups", "start", "end", "span", "groupdict")
            if f.attr in ok_ and all(isinstance(a, Const) for a in list(args) + list(kw.values())):
                try:
                    r_ = getattr(recv.v, f.attr)(*[a.v for a in args], **{k: v.v for k, v in kw.items()})
                    return [(Const(list(r_) if f.attr == "finditer" else r_), st)]
                except Exception as ex:
                    return [(Exc(type(ex).__name__, e), st)]
        if isinstance(f, ast.Attribute) and isinstance(recv, Const):
            if recv.v is None:
                return [(Exc("AttributeError", e), st)]
            if type(recv.v) in (str, bytes, bytearray, list, tuple, dict, int, bool, set, frozenset, float) and not hasattr(recv.v, f.attr):
                return [(Exc("AttributeError", e), st)]  # e.g. a list where the code expects a string
            if isinstance(recv.v, (str, bytes, bytearray)) and f.attr in PURE_STR and all(isinstance(a, Const) for a in args) and not kw:
                try:
                    return [(Const(getattr(recv.v, f.attr)(*[a.v for a in args])), st)]
                except Exception as ex:
                    return [(Exc(type(ex).__name__, e), st)]
            if isinstance(recv.v, dict) and not recv.v and f.attr == "get" and 1 <= len(args) <= 2 and not kw:
                return [(args[1] if len(args) == 2 else Const(None), st)]  # nothing is in an empty table, whatever the key
            if isinstance(recv.v, (list, tuple, dict)) and f.attr in ("get", "index", "count", "keys", "values", "copy") \
                    and all(isinstance(a, Const) for a in args) and not kw:
                try:
                    r = getattr(recv.v, f.attr)(*[a.v for a in args])
                    return [(Const(list(r) if f.attr in ("keys", "values") else r), st)]
                except Exception as ex:
                    return [(Exc(type(ex).__name__, e), st)]
        self.unknowns.append(name or "?")  # a call the interpretation could not follow: what comes after it is a guess
        return [(Unknown("call:%s" % (name or "?")), st)]

    def inline(self, func, e, args, kw, st, self_param=None):
        if self.depth >= self.max_depth:
            self.unknowns.append("depth")
            return [(Unknown("depth"), st)]
        static = func.cls is not None and "staticmethod" in getattr(func, "decorators", ())
        sub = Interp(func.node, (func.cls.name if func.cls and not static else (self.clsname if self_param else None)), self.oracle, self.max_paths,
                     loop_unroll=self.loop_unroll, depth=self.depth + 1, max_depth=self.max_depth,
                     exc_bases=self.exc_bases, resolve=self.resolve, selfname=self_param)
        sub.unknowns = self.unknowns
        for hk in ("getattr_hook", "yield_hook", "exc_fields", "record_types", "self_attr_hook", "global_exprs", "class_attr_exprs"):
            if getattr(self, hk, None) is not None:
                setattr(sub, hk, getattr(self, hk))
        params = list(func.params)
        env = {}
        if func.cls is not None and params and "staticmethod" not in getattr(func, "decorators", ()):
            params = params[1:]
        for p, v in zip(params, args):
            if p != self_param:
                env[p] = v
        for k, v in kw.items():
            if k is not None:
                env[k] = v
        # self attributes are shared: copy 'self.x' keys under the callee's self name
        caller_self, callee_self = self.selfname, sub.selfname
        inner = State({}, st.events, {})
        if caller_self and callee_self:
            for k, v in st.env.items():
                if k.startswith(caller_self + "."):
                    inner.env[callee_self + k[len(caller_self):]] = v
        for k, v in st.env.items():
            if k.startswith("@") or _class_attr_key(k):
                inner.env[k] = v  # scenario state kept by oracles (cursors, buffers), pending exception values; class attributes (process-wide)
        out = []
        is_gen = any(isinstance(n_, (ast.Yield, ast.YieldFrom)) for n_ in ast.walk(func.node)) and getattr(self, "yield_hook", None) is None
        n0 = len(st.events)
        for p in sub.run(env, inner):
            s2 = st.copy()
            s2.events = list(p.events)
            if is_gen and p.kind == "return":
                # a generator function called for its values (`"".join(self.parts())`, `list(...)`, a for loop): the values it yields
                ys = [ev for ev in s2.events[n0:] if ev[0] == "yield"]
                s2.events = s2.events[:n0] + [ev for ev in s2.events[n0:] if ev[0] != "yield"]
                if all(isinstance(ev[1], Const) for ev in ys):
                    p.value = Const([ev[1].v for ev in ys])
                elif all(isinstance(ev[1], (Const, Tup)) and (isinstance(ev[1], Const) or all(isinstance(x_, Const) for x_ in ev[1].items)) for ev in ys):
                    p.value = Const([ev[1].v if isinstance(ev[1], Const) else tuple(x_.v for x_ in ev[1].items) for ev in ys])
                else:
                    self.unknowns.append("generator")
                    p.value = Unknown("generator")
            if caller_self and callee_self:
                for k, v in p.env.items():
                    if k.startswith(callee_self + "."):
                        s2.env[caller_self + k[len(callee_self):]] = v
            for k in [k for k in s2.env if k.startswith("@")]:
                del s2.env[k]
            for k, v in p.env.items():
                if k.startswith("@") or _class_attr_key(k):
                    s2.env[k] = v
            out.append((Exc(p.value, p.node) if p.kind == "raise" else p.value, s2))
        return out


def _class_attr_key(k):
    """`ClassName.attr` given by a scenario: state of the process, seen by every function"""
    return "." in k and k[0].isupper() and k.split(".", 1)[0].isidentifier()


def _as_load(t):
    if isinstance(t, ast.Name):
        return ast.copy_location(ast.Name(id=t.id, ctx=ast.Load()), t)
    if isinstance(t, ast.Attribute):
        return ast.copy_location(ast.Attribute(value=t.value, attr=t.attr, ctx=ast.Load()), t)
    if isinstance(t, ast.Subscript):
        return ast.copy_location(ast.Subscript(value=t.value, slice=t.slice, ctx=ast.Load()), t)
    return t


def truth(v):
    if isinstance(v, Const):
        try:
            return bool(v.v)
        except Exception:
            return None
    if isinstance(v, Tup):
        return bool(v.items)
    if isinstance(v, Ref):
        return True
    return None


def compare(op, l, r):
    if isinstance(op, (ast.Is, ast.IsNot)):
        if isinstance(l, Const) and isinstance(r, Const):
            if l.v is None or r.v is None or isinstance(l.v, bool) or isinstance(r.v, bool):
                same = l.v is r.v
            else:
                same = l.v == r.v
            return Const(same if isinstance(op, ast.Is) else not same)
        if isinstance(r, Const) and r.v is None and isinstance(l, (Tup, Ref, Obj)):
            return Const(isinstance(op, ast.IsNot))
        if isinstance(l, Const) and l.v is None and isinstance(r, (Tup, Ref, Obj)):
            return Const(isinstance(op, ast.IsNot))
        return Unknown("is")
    if isinstance(l, Const) and isinstance(r, Const):
        try:
            if isinstance(op, ast.Eq):
                return Const(l.v == r.v)
            if isinstance(op, ast.NotEq):
                return Const(l.v != r.v)
            if isinstance(op, ast.In):
                return Const(l.v in r.v)
            if isinstance(op, ast.NotIn):
                return Const(l.v not in r.v)
            if isinstance(op, ast.Lt):
                return Const(l.v < r.v)
            if isinstance(op, ast.LtE):
                return Const(l.v <= r.v)
            if isinstance(op, ast.Gt):
                return Const(l.v > r.v)
            if isinstance(op, ast.GtE):
                return Const(l.v >= r.v)
        except TypeError:
            # two constants: Python raises here as well (a list looked up in a set, an int compared with a str)
            if isinstance(op, (ast.In, ast.NotIn)) and isinstance(r.v, (set, frozenset, dict)) or isinstance(op, (ast.Lt, ast.LtE, ast.Gt, ast.GtE)):
                return Exc("TypeError")
            return Unknown("cmp")
        except Exception:
            return Unknown("cmp")
    if isinstance(op, (ast.In, ast.NotIn)) and isinstance(r, Const) and r.v is None:
        return Exc("TypeError")
    return Unknown("cmp")


def binop(op, l, r):
    if isinstance(l, Const) and isinstance(r, Const):
        try:
            if isinstance(op, ast.Add):
                return Const(l.v + r.v)
            if isinstance(op, ast.Sub):
                return Const(l.v - r.v)
            if isinstance(op, ast.Mod):
                return Const(l.v % r.v)
            if isinstance(op, ast.Mult):
                return Const(l.v * r.v)
        except Exception:
            return Unknown("binop")
    if isinstance(op, ast.Mod) and isinstance(l, Const) and isinstance(l.v, (str, bytes)) and isinstance(r, Tup) \
            and all(isinstance(i, Const) for i in r.items):
        try:
            return Const(l.v % tuple(i.v for i in r.items))
        except Exception:
            return Unknown("fmt")
    return Unknown("binop")
