"""Normalisation of the program model before the rules run (syntax trees only, nothing is executed).

1. inline_helpers: calls to private helper functions that are NOT known to the rule set (extract-method refactorings) are
   replaced by a copy of the helper's statements, so that path rules keep seeing the whole mechanism in one flow graph.
   A copied body becomes an `InlineBlock`; a `return` of the helper becomes an assignment of the result plus `InlineLeave`
   (jump to the end of the block).  Both are extra statement kinds that sa/cfg.py and sa/fd.py know; ast.walk / ast.unparse
   treat them as transparent containers.
2. propagate_paths: a local bound once to an access path (`content = f["content"]`, `n = len(self.buf)`) is replaced by
   that path at every use that no write to the path can precede (hoisted sub-expressions read like the original code).

Both are conservative: whatever does not fit the supported shapes is left exactly as written.
"""
import ast
import copy

MATCH_ACCESSORS = {"group", "groups", "start", "end", "span"}
MUTATORS = {"append", "extend", "insert", "remove", "pop", "clear", "sort", "reverse", "update", "setdefault", "popitem", "add", "discard"}


class InlineBlock(ast.stmt):
    _fields = ("body",)
    _attributes = ("lineno", "col_offset", "end_lineno", "end_col_offset")


class InlineLeave(ast.stmt):
    _fields = ()
    _attributes = ("lineno", "col_offset", "end_lineno", "end_col_offset")


# ast.unparse support: print an inlined block as its statements
def _unparse_block(self, node):
    for st in node.body:
        self.traverse(st)


def _unparse_leave(self, node):
    self.fill("pass")


try:
    ast._Unparser.visit_InlineBlock = _unparse_block
    ast._Unparser.visit_InlineLeave = _unparse_leave
except AttributeError:  # pragma: no cover
    pass


def clone(node):
    """Deep copy of a syntax tree through its fields only (the `_parent` back links would drag the whole module along)."""
    if isinstance(node, list):
        return [clone(x) for x in node]
    if not isinstance(node, ast.AST):
        return node
    new = node.__class__()
    for fld in node._fields:
        if hasattr(node, fld):
            setattr(new, fld, clone(getattr(node, fld)))
    for a in ("lineno", "col_offset", "end_lineno", "end_col_offset", "label", "helper"):
        if hasattr(node, a):
            setattr(new, a, getattr(node, a))
    return new


def _stmt_lists(node):
    """(owner, field name, list) for every statement list under node, not entering nested defs."""
    out = []
    for fld in ("body", "orelse", "finalbody"):
        lst = getattr(node, fld, None)
        if isinstance(lst, list) and lst and isinstance(lst[0], ast.stmt):
            out.append((node, fld, lst))
    if isinstance(node, ast.Try):
        for h in node.handlers:
            out.append((h, "body", h.body))
    return out


def _walk_no_defs(node):
    todo = [node]
    while todo:
        n = todo.pop()
        yield n
        for c in ast.iter_child_nodes(n):
            if isinstance(c, (ast.FunctionDef, ast.AsyncFunctionDef, ast.Lambda, ast.ClassDef)):
                continue
            todo.append(c)


def _names(node, store=None):
    out = set()
    for n in ast.walk(node):
        if isinstance(n, ast.Name) and (store is None or isinstance(n.ctx, ast.Store) == store):
            out.add(n.id)
        if isinstance(n, ast.arg):
            out.add(n.arg)
    return out


PURE_METHODS = {"encode", "decode", "strip", "lstrip", "rstrip", "lower", "upper", "startswith", "endswith"}
PURE_BUILTINS = {"len", "str", "bytes", "int", "repr", "bool"}


def _pure_expr(a):
    """Evaluating it twice gives the same value twice and has no effect (so a parameter used twice may be replaced by it)."""
    if isinstance(a, (ast.Name, ast.Constant)):
        return True
    if isinstance(a, ast.Attribute):
        return isinstance(a.value, ast.Name)
    if isinstance(a, ast.Call) and not a.keywords and all(_pure_expr(x) for x in a.args):
        if isinstance(a.func, ast.Attribute) and a.func.attr in PURE_METHODS:
            return _pure_expr(a.func.value) and all(isinstance(x, ast.Constant) for x in a.args)
        if isinstance(a.func, ast.Name) and a.func.id in PURE_BUILTINS:
            return True
    return False


def _is_generator(h):
    return any(isinstance(n, (ast.Yield, ast.YieldFrom)) for n in _walk_no_defs(h.node))


def _simple_generator(h):
    """A generator whose yields are statements of their own (`yield x`), with no `yield from`, no value sent in and no `return v`."""
    for n in _walk_no_defs(h.node):
        if isinstance(n, ast.YieldFrom):
            return False
        if isinstance(n, ast.Yield):
            p = getattr(n, "_parent", None)
            if not (isinstance(p, ast.Expr) and p.value is n):
                return False
        if isinstance(n, ast.Return) and n.value is not None:
            return False
        if isinstance(n, (ast.Try, ast.With)) and any(isinstance(x, ast.Yield) for x in ast.walk(n)):
            return False  # a consumer that stops early would run the cleanup at another time
    return True


def _inlinable(h, generator=False):
    node = h.node
    if any(d not in ("staticmethod", "classmethod") for d in h.decorators):
        return False
    if "classmethod" in h.decorators:
        # `cls.x` read through the instance means the same thing; a store on the class does not
        first = h.params[0] if h.params else None
        for n in ast.walk(node):
            if isinstance(n, ast.Attribute) and isinstance(n.ctx, (ast.Store, ast.Del)) and isinstance(n.value, ast.Name) and n.value.id == first:
                return False
            if isinstance(n, ast.Name) and n.id == first and not (isinstance(getattr(n, "_parent", None), ast.Attribute)):
                if getattr(n, "_parent", None) is not None:
                    return False  # the class object itself is used (cls(...), passed on)
    a = node.args
    if a.kwarg or a.kwonlyargs or a.posonlyargs:
        return False
    if a.vararg is not None and any(isinstance(n, ast.Name) and n.id == a.vararg.arg and not isinstance(n.ctx, ast.Load) for n in ast.walk(node)):
        return False  # *args rebound in the body
    if any(isinstance(d, (ast.List, ast.Dict, ast.Set)) or (isinstance(d, ast.Call) and isinstance(d.func, ast.Name) and d.func.id in ("list", "dict", "set"))
           for d in a.defaults):
        return False  # a mutable default is one object shared by all calls: copying the body would hide that
    for n in ast.walk(node):
        if isinstance(n, (ast.Global, ast.Nonlocal)):
            return False
        if isinstance(n, (ast.Yield, ast.YieldFrom)) and not generator:
            return False
        if n is not node and isinstance(n, (ast.FunctionDef, ast.AsyncFunctionDef, ast.ClassDef)):
            return False
        # recursion
        if isinstance(n, ast.Call) and isinstance(n.func, ast.Attribute) and n.func.attr == node.name:
            return False
        if isinstance(n, ast.Call) and isinstance(n.func, ast.Name) and n.func.id == node.name:
            return False
    return True


def _effect_free(h):
    """A helper that only looks (debug printing): no store outside its locals, no raise, no call of another method of its object."""
    selfn = h.params[0] if h.cls is not None and h.params else None
    for n in _walk_no_defs(h.node):
        if isinstance(n, (ast.Attribute, ast.Subscript)) and isinstance(getattr(n, "ctx", None), (ast.Store, ast.Del)):
            return False
        if isinstance(n, ast.Raise):
            return False
        if isinstance(n, ast.Call) and isinstance(n.func, ast.Attribute):
            if n.func.attr in MUTATORS or n.func.attr in ("write", "writelines", "send", "sendall"):
                return False
            if isinstance(n.func.value, ast.Name) and n.func.value.id == selfn:
                return False
        if isinstance(n, ast.Call) and isinstance(n.func, ast.Name) and n.func.id in h.params:
            return False  # a callback handed in by the caller is called
    return True


def _size(stmts):
    return sum(1 for s_ in stmts for n in ast.walk(s_) if isinstance(n, ast.stmt))


def _decidable_test(test, name):
    """test reads nothing but `name` and constants"""
    ok = False
    for n in ast.walk(test):
        if isinstance(n, ast.Name):
            if n.id != name:
                return False
            ok = True
        elif isinstance(n, (ast.Call, ast.Attribute, ast.Subscript, ast.NamedExpr)):
            return False
    return ok


def _decide(test, name, value):
    """Truth of `test` when `name` holds the constant `value`; None when not decided."""
    def ev(e):
        if isinstance(e, ast.Name) and e.id == name:
            return ("v", value)
        if isinstance(e, ast.Constant):
            return ("v", e.value)
        if isinstance(e, ast.UnaryOp) and isinstance(e.op, ast.Not):
            x = ev(e.operand)
            return None if x is None else ("v", not x[1])
        if isinstance(e, ast.Compare) and len(e.ops) == 1:
            l, r = ev(e.left), ev(e.comparators[0])
            if l is None or r is None:
                return None
            a, b = l[1], r[1]
            op = e.ops[0]
            try:
                if isinstance(op, ast.Is):
                    return ("v", a is b if (a is None or b is None or isinstance(a, bool) or isinstance(b, bool)) else a == b)
                if isinstance(op, ast.IsNot):
                    return ("v", not (a is b if (a is None or b is None or isinstance(a, bool) or isinstance(b, bool)) else a == b))
                if isinstance(op, ast.Eq):
                    return ("v", a == b)
                if isinstance(op, ast.NotEq):
                    return ("v", a != b)
            except Exception:
                return None
            return None
        if isinstance(e, ast.BoolOp):
            vals = [ev(x) for x in e.values]
            if any(x is None for x in vals):
                return None
            if isinstance(e.op, ast.And):
                return ("v", all(bool(x[1]) for x in vals))
            return ("v", any(bool(x[1]) for x in vals))
        return None
    r = ev(test)
    return None if r is None else bool(r[1])


def _single_early_use(body, p):
    """Parameter p is read exactly once, in a statement before which the helper executes nothing that has an effect."""
    uses = [n for s_ in body for n in ast.walk(s_) if isinstance(n, ast.Name) and n.id == p]
    if len(uses) != 1 or not isinstance(uses[0].ctx, ast.Load):
        return False
    for s_ in body:
        inside = any(n is uses[0] for n in ast.walk(s_))
        if inside:
            # not under a loop / comprehension / lambda / conditional inside that statement
            if isinstance(s_, (ast.For, ast.While, ast.If, ast.Try, ast.With)):
                return isinstance(s_, ast.If) and any(n is uses[0] for n in ast.walk(s_.test)) and not isinstance(s_.test, ast.BoolOp)
            for n in ast.walk(s_):
                if isinstance(n, (ast.ListComp, ast.GeneratorExp, ast.SetComp, ast.DictComp, ast.Lambda, ast.IfExp, ast.BoolOp)) \
                        and any(x is uses[0] for x in ast.walk(n)):
                    return False
            return True
        if not isinstance(s_, (ast.Assign, ast.AnnAssign, ast.Expr, ast.Pass)) or any(isinstance(n, (ast.Call, ast.Await)) for n in ast.walk(s_)):
            return False
    return False


class _Rewrite(ast.NodeTransformer):
    def __init__(self, subst, rename, qualify=None):
        self.subst = subst
        self.rename = rename
        self.qualify = qualify or {}  # global name of the helper's module -> alias of that module in the caller's module

    def visit_Name(self, n):
        if n.id in self.subst and isinstance(n.ctx, ast.Load):
            return clone(self.subst[n.id])
        if n.id in self.rename:
            return ast.copy_location(ast.Name(id=self.rename[n.id], ctx=n.ctx), n)
        if n.id in self.qualify and isinstance(n.ctx, ast.Load):
            return ast.copy_location(ast.Attribute(value=ast.Name(id=self.qualify[n.id], ctx=ast.Load()), attr=n.id, ctx=ast.Load()), n)
        return n


def _qualify_map(h, caller_module, bound_names):
    """Globals of a helper that lives in another module than its caller, as the caller has to spell them."""
    alias = getattr(h, "_foreign_alias", None)
    if alias is None or h.module is caller_module:
        return {}
    out = {}
    for nm in list(h.module.funcs) + list(h.module.assigns) + list(h.module.classes):
        if nm not in bound_names:
            out[nm] = alias
    return out


def _replace_returns(stmts, make):
    """Replace every `return` in stmts (recursively through compound statements) by make(value) -> [stmts]."""
    out = []
    for st in stmts:
        if isinstance(st, ast.Return):
            out.extend(make(st.value))
            continue
        for owner, fld, lst in _stmt_lists(st):
            setattr(owner, fld, _replace_returns(lst, make))
        out.append(st)
    return out


def _falls_through(stmts):
    if not stmts:
        return True
    last = stmts[-1]
    if isinstance(last, (ast.Return, ast.Raise)):
        return False
    if isinstance(last, ast.If) and last.orelse:
        return _falls_through(last.body) or _falls_through(last.orelse)
    if isinstance(last, ast.Try) and not last.finalbody:
        return _falls_through(last.body + last.orelse) or any(_falls_through(hd.body) for hd in last.handlers)
    return True


def _pure_callee(f):
    """Evaluating the callee expression itself does nothing (a name, an attribute of a name / constant, a method of a constant)."""
    if isinstance(f, ast.Name):
        return True
    if isinstance(f, ast.Attribute):
        v = f.value
        while isinstance(v, ast.Attribute):
            v = v.value
        return isinstance(v, (ast.Name, ast.Constant))
    return False


def _first_evaluated(e):
    """[(node, parent, field, index)]: the sub-expressions of e that are evaluated before anything else of e with an effect, outermost
    first (each is the first thing its parent evaluates)."""
    out = []
    cur = e
    while True:
        nxt = None
        if isinstance(cur, ast.UnaryOp):
            nxt = (cur.operand, cur, "operand", None)
        elif isinstance(cur, ast.Compare):
            nxt = (cur.left, cur, "left", None)
        elif isinstance(cur, ast.BoolOp):
            nxt = (cur.values[0], cur, "values", 0)
        elif isinstance(cur, ast.BinOp):
            nxt = (cur.left, cur, "left", None)
        elif isinstance(cur, ast.IfExp):
            nxt = (cur.test, cur, "test", None)
        elif isinstance(cur, (ast.Attribute, ast.Subscript, ast.Starred)):
            nxt = (cur.value, cur, "value", None)
        elif isinstance(cur, (ast.Tuple, ast.List)) and cur.elts:
            nxt = (cur.elts[0], cur, "elts", 0)
        elif isinstance(cur, ast.Call):
            if isinstance(cur.func, ast.Attribute) and not _pure_callee(cur.func):
                nxt = (cur.func.value, cur.func, "value", None)
            elif _pure_callee(cur.func) and cur.args:
                nxt = (cur.args[0], cur, "args", 0)
        if nxt is None:
            return out
        out.append(nxt)
        cur = nxt[0]


class Inliner:
    def __init__(self, resolve, max_depth=3):
        self.resolve = resolve  # (call, caller Func) -> helper Func or None
        self.max_depth = max_depth
        self.count = 0
        self.inlined = {}  # helper qualname -> number of inlined call sites
        self.seq = 0

    # ---- call site shapes -----------------------------------------------------
    @staticmethod
    def _site(st, alt=False):
        """(call, mode) when st has one of the supported shapes (alt: the second reading of an expression statement)."""
        if isinstance(st, ast.Expr) and isinstance(st.value, ast.Call):
            if alt and st.value.args and isinstance(st.value.args[0], ast.Call) and not st.value.keywords and (
                    isinstance(st.value.func, ast.Name) or (isinstance(st.value.func, ast.Attribute) and isinstance(st.value.func.value, ast.Name))):
                return st.value.args[0], "arg0"  # acc.append(helper(x)): the helper's result is the first thing evaluated
            return st.value, "expr"
        if isinstance(st, ast.Return) and isinstance(st.value, ast.Call):
            return st.value, "return"
        if isinstance(st, ast.Raise) and isinstance(st.exc, ast.Call) and st.cause is None:
            return st.exc, "raise"  # `raise self.__error(...)`: what the helper returns is raised where it returns it
        if isinstance(st, ast.Assign) and isinstance(st.value, ast.Call):
            if len(st.targets) == 1 and isinstance(st.targets[0], ast.Name):
                return st.value, "assign"
            if len(st.targets) == 1 and isinstance(st.targets[0], (ast.Tuple, ast.List)) and all(
                    isinstance(t, ast.Name) for t in st.targets[0].elts):
                return st.value, "tuple"
            return st.value, "value"
        if isinstance(st, ast.AnnAssign) and isinstance(st.value, ast.Call) and isinstance(st.target, ast.Name):
            return st.value, "assign"
        if isinstance(st, ast.AugAssign) and isinstance(st.value, ast.Call):
            return st.value, "value"
        if isinstance(st, ast.For) and isinstance(st.iter, ast.Call):
            return st.iter, "iter"
        if isinstance(st, ast.If):
            t = st.test
            if isinstance(t, ast.Call):
                return t, "test"
            if isinstance(t, ast.UnaryOp) and isinstance(t.op, ast.Not) and isinstance(t.operand, ast.Call):
                return t.operand, "test"
        return None, None

    def run(self, func):
        # bodies copied in from helpers bring their own comprehensions and calls of helpers: repeat until nothing changes
        for _ in range(3):
            start = self.count
            nseq = self.seq
            self._comprehensions(func)
            c0 = self.count
            self._expressions(func)
            if self.count != c0:
                relink(func.node, getattr(func.node, "_parent", None))
            self._block_owner(func.node, func, 0)
            if self.count != c0:
                relink(func.node, getattr(func.node, "_parent", None))
            if self.count == start and self.seq == nseq:
                break
        return self.count

    def _comprehensions(self, func):
        """`return [helper(a) for a in xs]` / `ys = [helper(a) for a in xs]` with an unknown helper becomes an explicit loop
        (`item = helper(a); acc.append(item)`), so that the helper can be inlined per item."""
        me = self

        def has_helper(e):
            return any(isinstance(c, ast.Call) and me.resolve(c, func) is not None for c in ast.walk(e))

        def block(stmts):
            out = []
            for st in stmts:
                for owner, fld, lst in _stmt_lists(st):
                    if not isinstance(st, (ast.FunctionDef, ast.AsyncFunctionDef, ast.ClassDef)):
                        setattr(owner, fld, block(lst))
                comp = None
                if isinstance(st, ast.Return) and isinstance(st.value, ast.ListComp):
                    comp = st.value
                elif isinstance(st, ast.Assign) and len(st.targets) == 1 and isinstance(st.targets[0], ast.Name) and isinstance(st.value, ast.ListComp):
                    comp = st.value
                elif isinstance(st, (ast.Expr, ast.Assign, ast.Return)) and st.value is not None and not (
                        isinstance(st, ast.Assign) and not all(isinstance(t, ast.Name) for t in st.targets)):
                    # `target.write("[{}]".format(", ".join([helper(v) for v in value])))`: the list is the first thing evaluated, and
                    # whoever receives it reads all of it at once: it can be built in a statement of its own just before
                    for node, par, fld, idx in _first_evaluated(st.value):
                        if isinstance(node, (ast.ListComp, ast.GeneratorExp)) and len(node.generators) == 1 and not node.generators[0].is_async \
                                and isinstance(node.elt, ast.Call) and me.resolve(node.elt, func) is not None \
                                and isinstance(par, ast.Call) and isinstance(par.func, ast.Attribute) and par.func.attr == "join":
                            me.seq += 1
                            acc = "items_%d" % me.seq
                            lc = ast.ListComp(elt=node.elt, generators=node.generators)
                            pre_st = ast.copy_location(ast.Assign(targets=[ast.Name(id=acc, ctx=ast.Store())], value=lc), st)
                            ast.fix_missing_locations(pre_st)
                            getattr(par, fld)[idx] = ast.copy_location(ast.Name(id=acc, ctx=ast.Load()), node)
                            out.extend(block([pre_st]))
                            break
                        if isinstance(node, ast.Call) and not _pure_callee(node.func):
                            break
                if comp is None or len(comp.generators) != 1 or comp.generators[0].is_async or not isinstance(comp.elt, ast.Call) \
                        or me.resolve(comp.elt, func) is None:
                    out.append(st)
                    continue
                me.seq += 1
                gen = comp.generators[0]
                acc = st.targets[0].id if isinstance(st, ast.Assign) else "items_%d" % me.seq
                item = "item_%d" % me.seq
                body = [ast.Assign(targets=[ast.Name(id=item, ctx=ast.Store())], value=comp.elt),
                        ast.Expr(value=ast.Call(func=ast.Attribute(value=ast.Name(id=acc, ctx=ast.Load()), attr="append", ctx=ast.Load()),
                                                args=[ast.Name(id=item, ctx=ast.Load())], keywords=[]))]
                for cond in reversed(gen.ifs):
                    body = [ast.If(test=cond, body=body, orelse=[])]
                new = [ast.Assign(targets=[ast.Name(id=acc, ctx=ast.Store())], value=ast.List(elts=[], ctx=ast.Load())),
                       ast.For(target=gen.target, iter=gen.iter, body=body, orelse=[])]
                if isinstance(st, ast.Return):
                    new.append(ast.Return(value=ast.Name(id=acc, ctx=ast.Load())))
                for n_ in new:
                    for x in ast.walk(n_):
                        if isinstance(x, (ast.stmt, ast.expr)) and not hasattr(x, "lineno"):
                            x.lineno, x.col_offset = st.lineno, st.col_offset
                            x.end_lineno, x.end_col_offset = getattr(st, "end_lineno", st.lineno), getattr(st, "end_col_offset", 0)
                out.extend(new)
            return out
        func.node.body = block(func.node.body)
        relink(func.node, getattr(func.node, "_parent", None))

    def _expressions(self, func):
        self.expressions_in(func.node, func, func.module)

    def expressions_in(self, root, func, module):
        """Helpers that are a single `return <expression>` are substituted wherever they are called (any expression position).
        `func` is the enclosing function, or None for a class-level / module-level expression (then `module` resolves names)."""
        me = self
        rctx = func if func is not None else module

        class _F:  # stand-in for "no enclosing function"
            node = None
            cls = None
            params = []
            decorators = []
        func = func if func is not None else _F()

        class T(ast.NodeTransformer):
            def visit_FunctionDef(self, n):
                if n is func.node:
                    self.generic_visit(n)
                return n

            def visit_Lambda(self, n):
                return n

            def visit_Call(self, c):
                self.generic_visit(c)
                h = me.resolve(c, rctx)
                if h is None or h is func or not _inlinable(h):
                    return c
                body = list(h.node.body)
                if body and isinstance(body[0], ast.Expr) and isinstance(body[0].value, ast.Constant) and isinstance(body[0].value.value, str):
                    body = body[1:]
                if len(body) != 1 or not isinstance(body[0], ast.Return) or body[0].value is None:
                    return c
                params = list(h.params)
                caller_self = func.params[0] if func.cls is not None and func.params and "staticmethod" not in func.decorators else None
                hself = None
                if h.cls is not None and "staticmethod" not in h.decorators:
                    if not params or caller_self is None:
                        return c
                    hself, params = params[0], params[1:]
                va = h.node.args.vararg.arg if h.node.args.vararg is not None else None
                if any(isinstance(a, ast.Starred) for a in c.args) or c.keywords and any(k.arg is None for k in c.keywords) or (
                        len(c.args) > len(params) and va is None):
                    return c
                bound = dict(zip(params, c.args))
                if va is not None:
                    # the extra positional arguments are what *args holds
                    bound[va] = ast.Tuple(elts=list(c.args[len(params):]), ctx=ast.Load())
                for k in c.keywords:
                    if k.arg not in params or k.arg in bound:
                        return c
                    bound[k.arg] = k.value
                dflt = h.defaults()
                for p_ in params:
                    if p_ not in bound:
                        if p_ not in dflt:
                            return c
                        bound[p_] = dflt[p_]
                expr = body[0].value
                uses = {}
                for n in ast.walk(expr):
                    if isinstance(n, ast.Name) and n.id in bound:
                        uses[n.id] = uses.get(n.id, 0) + 1
                        if not isinstance(n.ctx, ast.Load):
                            return c
                for p_, a in bound.items():
                    pure = _pure_expr(a) or (isinstance(a, ast.Tuple) and all(_pure_expr(x) for x in a.elts))
                    if not pure and uses.get(p_, 0) > 1:
                        return c
                # names of the helper's expression that are neither parameters nor its self: globals / builtins, unchanged
                rename = {hself: caller_self} if hself is not None and hself != caller_self else {}
                qual = _qualify_map(h, module if module is not None else getattr(func, "module", None), set(bound))
                new = _Rewrite(bound, rename, qual).visit(clone(expr))
                for n in ast.walk(new):
                    if isinstance(n, (ast.expr,)):
                        n.lineno, n.col_offset = c.lineno, c.col_offset
                        n.end_lineno, n.end_col_offset = getattr(c, "end_lineno", c.lineno), getattr(c, "end_col_offset", c.col_offset)
                        if not getattr(n, "_inl_origin", None):
                            n._inl_origin = (h.qualname, getattr(expr, "lineno", None))
                me.count += 1
                me.inlined[h.qualname] = me.inlined.get(h.qualname, 0) + 1
                return new
        return T().visit(root)

    def _block_owner(self, owner, func, depth):
        for o, fld, lst in _stmt_lists(owner):
            setattr(o, fld, self._block(lst, func, depth))

    def _block(self, stmts, func, depth):
        out = []
        skip = None
        stmts = list(stmts)
        for i, st in enumerate(stmts):
            if st is skip:
                continue
            # `d.update(self.__pairs(...))` with a generator helper: the loop dict.update() runs over the pairs, written out
            if isinstance(st, ast.Expr) and isinstance(st.value, ast.Call) and isinstance(st.value.func, ast.Attribute) and st.value.func.attr == "update" \
                    and isinstance(st.value.func.value, ast.Name) and len(st.value.args) == 1 and not st.value.keywords \
                    and isinstance(st.value.args[0], ast.Call) and depth < self.max_depth:
                hg = self.resolve(st.value.args[0], func)
                if hg is not None and hg is not func and _is_generator(hg):
                    self.seq += 1
                    k_, v_ = "key_%d" % self.seq, "val_%d" % self.seq
                    loop = ast.For(target=ast.Tuple(elts=[ast.Name(id=k_, ctx=ast.Store()), ast.Name(id=v_, ctx=ast.Store())], ctx=ast.Store()),
                                   iter=st.value.args[0],
                                   body=[ast.Assign(targets=[ast.Subscript(value=ast.Name(id=st.value.func.value.id, ctx=ast.Load()),
                                                                           slice=ast.Name(id=k_, ctx=ast.Load()), ctx=ast.Store())],
                                                    value=ast.Name(id=v_, ctx=ast.Load()))], orelse=[])
                    ast.copy_location(loop, st)
                    ast.fix_missing_locations(loop)
                    relink(loop, getattr(st, "_parent", None))
                    st = loop
                    stmts[i] = loop
            call, mode = self._site(st)
            h = self.resolve(call, func) if call is not None and depth < self.max_depth else None
            if h is None and mode == "expr" and depth < self.max_depth:
                call2, mode2 = self._site(st, alt=True)
                if mode2 == "arg0" and self.resolve(call2, func) is not None:
                    call, mode = call2, mode2
                    h = self.resolve(call, func)
            if h is None and depth < self.max_depth and isinstance(st, (ast.Expr, ast.Assign, ast.Return, ast.If, ast.AugAssign)) \
                    and not isinstance(st, InlineBlock):
                # the helper call is the first thing the statement's expression evaluates (`failed = not self.__accept(...)`)
                root = st.test if isinstance(st, ast.If) else st.value
                if root is not None and not (isinstance(st, ast.Assign) and not all(isinstance(t, ast.Name) for t in st.targets)) \
                        and not (isinstance(st, ast.AugAssign) and not isinstance(st.target, ast.Name)):
                    for node, par, fld, idx in _first_evaluated(root):
                        if isinstance(node, ast.Call):
                            hh = self.resolve(node, func)
                            if hh is not None:
                                call, mode, h = node, "deep", hh
                                self._deep = (par, fld, idx)
                                break
            if h is not None and h is not func and mode == "iter" and _is_generator(h):
                # `for x in self.__items():` over a generator helper: the loop body runs where the helper yields
                relink(h.node, getattr(h.node, "_parent", None))
                rep = None
                if _inlinable(h, generator=True) and _simple_generator(h) and not st.orelse and _size(st.body) <= 60:
                    rep = self._expand(st, call, "genfor", h, func)
                if rep is not None:
                    self.count += 1
                    self.inlined[h.qualname] = self.inlined.get(h.qualname, 0) + 1
                    rep = self._block(rep, func, depth + 1) if depth + 1 < self.max_depth else rep
                    out.extend(rep)
                    continue
                h = None
            if h is not None and h is not func and _inlinable(h) and not (mode == "expr" and _effect_free(h)):
                follow = None
                if mode == "assign" and i + 1 < len(stmts) and isinstance(stmts[i + 1], ast.If):
                    tgt = st.targets[0] if isinstance(st, ast.Assign) else st.target
                    if _decidable_test(stmts[i + 1].test, tgt.id):
                        follow = stmts[i + 1]
                rep = self._expand(st, call, mode, h, func, follow)
                if rep is not None and follow is not None:
                    skip = follow
                if rep is not None:
                    self.count += 1
                    self.inlined[h.qualname] = self.inlined.get(h.qualname, 0) + 1
                    # helpers called by the helper
                    rep = self._block(rep, func, depth + 1) if depth + 1 < self.max_depth else rep
                    out.extend(rep)
                    continue
            if isinstance(st, (ast.FunctionDef, ast.AsyncFunctionDef, ast.ClassDef)):
                out.append(st)
                continue
            self._block_owner(st, func, depth)
            out.append(st)
        return out

    @staticmethod
    def _loaded_after(func, st, name):
        seen = False
        for n in _preorder(func.node):
            if n is st:
                seen = True
                continue
            if seen and isinstance(n, ast.Name) and n.id == name and isinstance(n.ctx, ast.Load):
                # loads inside st itself (the call's own arguments) come right after st in preorder: skip them
                p = n
                inside = False
                while p is not None:
                    if p is st:
                        inside = True
                        break
                    p = getattr(p, "_parent", None)
                if not inside and not _exclusive(st, n):
                    return True
        # a loop around st re-reads whatever precedes it
        p = getattr(st, "_parent", None)
        while p is not None and p is not func.node:
            if isinstance(p, ast.For) and isinstance(p.target, ast.Name) and p.target.id == name:
                return False  # the loop binds the name afresh for every iteration
            if isinstance(p, (ast.For, ast.While)):
                return any(isinstance(n, ast.Name) and n.id == name and isinstance(n.ctx, ast.Load) for n in ast.walk(p)
                           if not _inside(n, st))
            p = getattr(p, "_parent", None)
        return False

    def _expand(self, st, call, mode, h, func, follow=None):
        hn = h.node
        params = list(h.params)
        is_method = h.cls is not None and "staticmethod" not in h.decorators
        caller_self = func.params[0] if func.cls is not None and func.params and "staticmethod" not in func.decorators else None
        if is_method:
            if not params or caller_self is None:
                return None
            hself, params = params[0], params[1:]
        else:
            hself = None
        if any(isinstance(a, ast.Starred) for a in call.args) or any(k.arg is None for k in call.keywords):
            return None
        va = hn.args.vararg.arg if hn.args.vararg is not None else None
        if len(call.args) > len(params) and va is None:
            return None
        bound = {}
        for p, a in zip(params, call.args):
            bound[p] = a
        if va is not None:
            bound[va] = ast.Tuple(elts=list(call.args[len(params):]), ctx=ast.Load())
            params = params + [va]
        for k in call.keywords:
            if k.arg not in params or k.arg in bound:
                return None
            bound[k.arg] = k.value
        defaults = h.defaults()
        for p in params:
            if p not in bound:
                if p not in defaults:
                    return None
                bound[p] = defaults[p]
        body = clone(hn.body)
        if body and isinstance(body[0], ast.Expr) and isinstance(body[0].value, ast.Constant) and isinstance(body[0].value.value, str):
            body = body[1:]
        stored = set()
        for s_ in body:
            stored |= _names(s_, store=True)
        caller_names = _names(func.node)
        # the variables this call's result is assigned to are dead from here until that assignment: the helper's own locals of the
        # same name may keep their name (unless an argument of the call reads them)
        reusable = set()
        if mode == "assign":
            tg0 = st.targets[0] if isinstance(st, ast.Assign) else st.target
            reusable = {tg0.id}
        elif mode == "tuple":
            reusable = {t.id for t in st.targets[0].elts}
        target_names = set(reusable)
        for a_ in list(call.args) + [k.value for k in call.keywords]:
            reusable -= _names(a_)
        if reusable:
            p_ = getattr(st, "_parent", None)
            while p_ is not None and p_ is not func.node:
                if isinstance(p_, (ast.For, ast.While)):
                    # in a loop the value of the previous iteration could be read before this statement
                    for n_ in ast.walk(p_):
                        if isinstance(n_, ast.Name) and isinstance(n_.ctx, ast.Load) and n_.id in reusable and not _inside(n_, st):
                            if getattr(n_, "lineno", 0) <= getattr(st, "lineno", 0):
                                reusable.discard(n_.id)
                p_ = getattr(p_, "_parent", None)
        self.seq += 1
        tag = "%s%d" % (h.name.strip("_"), self.seq)
        subst, rename, pre = {}, {}, []
        if hself is not None and hself != caller_self:
            rename[hself] = caller_self
        for p in params:
            a = bound[p]
            if p not in stored and isinstance(a, (ast.Name, ast.Constant)):
                subst[p] = a
            elif p not in stored and isinstance(a, ast.Lambda) and not (a.args.defaults or a.args.kw_defaults) and not (
                    (_names(a.body) - {x.arg for x in a.args.args}) & stored):
                subst[p] = a  # a callback written at the call site: what it reads, it reads when it is called, here as there
            elif p not in stored and isinstance(a, ast.Attribute) and isinstance(a.value, ast.Name) and a.value.id == caller_self:
                subst[p] = a  # self.x passed through (helpers that rebind it are excluded by `stored`)
            elif p not in stored and _single_early_use(body, p):
                subst[p] = a  # used once, before anything else of the helper can have an effect: evaluated at the same point
            elif isinstance(a, ast.Name) and a.id in target_names and sum(
                    1 for x in list(call.args) + [k.value for k in call.keywords] for n_ in ast.walk(x)
                    if isinstance(n_, ast.Name) and n_.id == a.id) == 1:
                # `x = helper(x)`: the variable passed is overwritten by the result, its old value is needed by nobody else - the
                # helper's parameter can be that variable
                if a.id != p:
                    rename[p] = a.id
            elif isinstance(a, ast.Name) and not self._loaded_after(func, st, a.id):
                # the helper rebinds its parameter, and the caller never reads the variable it passed again: let the copy work on it
                if a.id != p:
                    rename[p] = a.id
            else:
                newp = p if (p not in caller_names or p in reusable) else "%s_%s" % (p, tag)
                if newp != p:
                    rename[p] = newp
                pre.append(ast.Assign(targets=[ast.Name(id=newp, ctx=ast.Store())], value=clone(a), lineno=st.lineno))
        for loc in sorted(stored - set(params)):
            if loc in caller_names and loc not in rename and loc not in reusable:
                rename[loc] = "%s_%s" % (loc, tag)
        rw = _Rewrite(subst, rename, _qualify_map(h, func.module, set(params) | stored))
        body = [rw.visit(s_) for s_ in body]
        label = tag
        res = None

        def leave():
            lv = InlineLeave()
            lv.label = label
            return lv
        if mode == "genfor":
            whole = label + "g"
            nyield = [0]

            def leave_lab(lab):
                lv = InlineLeave()
                lv.label = lab
                return lv

            def jumps(stmts, ylab):
                res = []
                for s_ in stmts:
                    if isinstance(s_, ast.Break):
                        res.append(leave_lab(whole))
                        continue
                    if isinstance(s_, ast.Continue):
                        res.append(leave_lab(ylab))
                        continue
                    if isinstance(s_, (ast.For, ast.While, ast.AsyncFor)):
                        s_.orelse = jumps(s_.orelse, ylab)
                    elif not isinstance(s_, (ast.FunctionDef, ast.AsyncFunctionDef, ast.ClassDef)):
                        for owner, fld, lst in _stmt_lists(s_):
                            setattr(owner, fld, jumps(lst, ylab))
                    res.append(s_)
                return res

            def at_yields(stmts):
                res = []
                for s_ in stmts:
                    if isinstance(s_, ast.Expr) and isinstance(s_.value, ast.Yield):
                        nyield[0] += 1
                        ylab = "%sy%d" % (label, nyield[0])
                        val = s_.value.value if s_.value.value is not None else ast.Constant(value=None)
                        tgt = clone(st.target)
                        blk = InlineBlock(body=[ast.Assign(targets=[tgt], value=val)] + jumps(clone(st.body), ylab))
                        blk.label = ylab
                        blk.helper = h.qualname
                        res.append(blk)
                        continue
                    if isinstance(s_, ast.Return):
                        res.append(leave_lab(whole))
                        continue
                    if not isinstance(s_, (ast.FunctionDef, ast.AsyncFunctionDef, ast.ClassDef)):
                        for owner, fld, lst in _stmt_lists(s_):
                            setattr(owner, fld, at_yields(lst))
                    res.append(s_)
                return res
            new = at_yields(body)
            if not 1 <= nyield[0] <= 4:
                return None
            outer = InlineBlock(body=new or [ast.Pass()])
            outer.label = whole
            outer.helper = h.qualname
            rep = pre + [outer]
        elif mode == "return":
            new = body
            if _falls_through(new):
                new = new + [ast.Return(value=ast.Constant(value=None))]
            rep = pre + new
        elif mode == "raise":
            new = _replace_returns(body, lambda v: [ast.Raise(exc=v if v is not None else ast.Constant(value=None), cause=None)])
            if _falls_through(body):
                new = new + [ast.Raise(exc=ast.Constant(value=None), cause=None)]
            rep = pre + new
        else:
            tnames = None
            if mode == "assign":
                tgt = st.targets[0] if isinstance(st, ast.Assign) else st.target
                res = tgt.id
            elif mode == "tuple":
                tnames = [t.id for t in st.targets[0].elts]
                res = "%s_ret" % tag
            elif mode in ("value", "test", "iter", "arg0", "deep"):
                res = "%s_ret" % tag
            # the statement that tests the result right away (`if helper():` / `x = helper()` + `if x is None:`): a return of a
            # constant decides that test, so the decided branch is executed at the return site (keeps "this exit <=> that outcome")
            tested = st if mode == "test" else follow
            tvar = res
            dtest = None
            if tested is not None:
                dtest = tested.test
                if mode == "test":
                    # the call is still spelled in the test: decide on the variable that will stand for its result
                    nm0 = ast.Name(id=res, ctx=ast.Load())
                    dtest = ast.UnaryOp(op=ast.Not(), operand=nm0) if isinstance(st.test, ast.UnaryOp) else nm0
            thread = tested is not None and _size(tested.body) + _size(tested.orelse) <= 12
            if thread and _own_jumps(list(tested.body) + list(tested.orelse)) and any(
                    isinstance(r_, ast.Return) for lp in _walk_no_defs(hn) if isinstance(lp, (ast.For, ast.While, ast.AsyncFor))
                    for r_ in ast.walk(lp)):
                # the decided branch holds a break / continue of the CALLER's loop: copied to a return site inside a loop of the
                # helper it would leave that loop instead
                thread = False
            after_label = label + "a"
            nthreaded = [0]

            def leave_to(lab):
                lv = InlineLeave()
                lv.label = lab
                return lv

            def value_threadable():
                # the result is only ever looked at by the test that follows: the returned expression can stand in the test itself
                if not thread or tnames is not None or dtest is None:
                    return False
                if sum(1 for n in ast.walk(dtest) if isinstance(n, ast.Name) and n.id == tvar) != 1:
                    return False
                if mode == "test":
                    return True
                if tvar in _names(ast.Module(body=list(tested.body) + list(tested.orelse), type_ignores=[])):
                    return False
                return not self._loaded_after(func, tested, tvar)
            vthread = value_threadable()

            def make(v):
                outl = []
                val = v if v is not None else ast.Constant(value=None)
                if vthread and not isinstance(val, ast.Constant) and nthreaded[0] < 8:
                    nthreaded[0] += 1
                    t = _Subst({tvar: val}).visit(clone(dtest))
                    outl.append(ast.If(test=t, body=clone(tested.body) or [ast.Pass()], orelse=clone(tested.orelse)))
                    outl.append(leave_to(after_label))
                    return outl
                if tnames is not None and isinstance(val, ast.Tuple) and len(val.elts) == len(tnames) and not any(
                        _names(ev) & set(tnames) for nm, ev in zip(tnames, val.elts) if not (isinstance(ev, ast.Name) and ev.id == nm)):
                    for nm, ev in zip(tnames, val.elts):
                        if isinstance(ev, ast.Name) and ev.id == nm:
                            continue  # the helper's local of that name already holds it
                        outl.append(ast.Assign(targets=[ast.Name(id=nm, ctx=ast.Store())], value=ev))
                elif tnames is not None:
                    outl.append(ast.Assign(targets=[ast.Name(id=res, ctx=ast.Store())], value=val))
                    outl.append(ast.Assign(targets=[ast.Tuple(elts=[ast.Name(id=nm, ctx=ast.Store()) for nm in tnames], ctx=ast.Store())],
                                           value=ast.Name(id=res, ctx=ast.Load())))
                elif res is not None:
                    if not (isinstance(val, ast.Name) and val.id == res):
                        outl.append(ast.Assign(targets=[ast.Name(id=res, ctx=ast.Store())], value=val))
                elif v is not None and any(isinstance(x, ast.Call) for x in ast.walk(v)):
                    outl.append(ast.Expr(value=v))
                if thread and isinstance(val, ast.Constant) and nthreaded[0] < 8:
                    verdict = _decide(dtest, tvar, val.value)
                    if verdict is not None:
                        nthreaded[0] += 1
                        outl.extend(clone(tested.body if verdict else tested.orelse))
                        outl.append(leave_to(after_label))
                        return outl
                outl.append(leave())
                return outl
            new = _replace_returns(body, make)
            if res is not None and tnames is None and _falls_through(body):
                new = new + make(None)[:-1]
            blk = InlineBlock(body=new or [ast.Pass()])
            blk.label = label
            blk.helper = h.qualname
            rep = pre + [blk]
            if mode == "tuple":
                pass  # the targets were assigned at every return site
            if mode == "value":
                st.value = ast.Name(id=res, ctx=ast.Load())
                rep.append(st)
            elif mode == "arg0":
                st.value.args[0] = ast.Name(id=res, ctx=ast.Load())
                rep.append(st)
            elif mode == "deep":
                par, fld, idx = self._deep
                nm = ast.Name(id=res, ctx=ast.Load())
                if idx is None:
                    setattr(par, fld, nm)
                else:
                    getattr(par, fld)[idx] = nm
                self._block_owner(st, func, 0)
                rep.append(st)
            elif mode == "iter":
                st.iter = ast.Name(id=res, ctx=ast.Load())
                self._block_owner(st, func, 0)
                rep.append(st)
            elif mode == "test":
                nm = ast.Name(id=res, ctx=ast.Load())
                if isinstance(st.test, ast.UnaryOp):
                    st.test.operand = nm
                else:
                    st.test = nm
                self._block_owner(st, func, 0)
                rep.append(st)
            if follow is not None:
                self._block_owner(follow, func, 0)
                rep.append(follow)
            if tested is not None and nthreaded[0]:
                outer = InlineBlock(body=rep[len(pre):])
                outer.label = after_label
                outer.helper = h.qualname
                rep = pre + [outer]
        anchor = int(getattr(st, "_inl_anchor", st.lineno))
        for r in rep:
            for n in ast.walk(r):
                if n is st:
                    continue
                if isinstance(n, (ast.stmt, ast.expr)) and (r is not st):
                    if not getattr(n, "_inl_origin", None):
                        n._inl_origin = (h.qualname, getattr(n, "lineno", None))
                    n._inl_anchor = anchor
                    n.lineno = st.lineno
                    n.col_offset = getattr(st, "col_offset", 0)
                    n.end_lineno = getattr(st, "end_lineno", st.lineno)
                    n.end_col_offset = getattr(st, "end_col_offset", 0)
        return rep


def _exclusive(a, b):
    """a sits in the body of an `if` whose else-part holds b (or the reverse): no path runs both."""
    chain = []
    p = a
    while p is not None:
        chain.append(p)
        p = getattr(p, "_parent", None)
    q, child = getattr(b, "_parent", None), b
    while q is not None:
        if isinstance(q, ast.If) and q in chain:
            # which parts of q hold a and b?
            ca = chain[chain.index(q) - 1] if chain.index(q) > 0 else None
            in_body_a = any(ca is x for x in q.body)
            in_else_a = any(ca is x for x in q.orelse)
            in_body_b = any(child is x for x in q.body)
            in_else_b = any(child is x for x in q.orelse)
            return (in_body_a and in_else_b) or (in_else_a and in_body_b)
        child, q = q, getattr(q, "_parent", None)
    return False


def _inside(n, anc):
    p = n
    while p is not None:
        if p is anc:
            return True
        p = getattr(p, "_parent", None)
    return False


def _preorder(node):
    yield node
    for c in ast.iter_child_nodes(node):
        yield from _preorder(c)


def renumber(func_node):
    """Give the copied statements of inlined helpers line numbers that keep the textual order: the call site's line plus a small
    fraction growing in source order (rules compare line numbers to order statements; reports print the integer part)."""
    anchor, cnt = None, 0
    for n in _preorder(func_node):
        if not hasattr(n, "lineno") or n is func_node:
            continue
        a = getattr(n, "_inl_anchor", None)
        if a is not None:
            if a != anchor:
                anchor, cnt = a, 0
            cnt += 1
            n.lineno = a + cnt * 1e-4
            n.end_lineno = n.lineno
        elif anchor is not None and int(n.lineno) == anchor:
            cnt += 1
            n.lineno = anchor + cnt * 1e-4
        elif anchor is not None and isinstance(n, ast.stmt):
            anchor = None


def relink(node, parent=None):
    node._parent = parent
    for p in ast.walk(node):
        for ch in ast.iter_child_nodes(p):
            ch._parent = p


# ------------------------------------------------------------------------------------------------ access paths
def _is_path(e, depth=0):
    """Name / attribute / constant-or-name subscript chains, and len() of one."""
    if isinstance(e, ast.Name):
        return depth > 0
    if isinstance(e, ast.Attribute):
        return _is_path(e.value, depth + 1) or isinstance(e.value, ast.Name)
    if isinstance(e, ast.Subscript):
        k = e.slice
        if not isinstance(k, ast.Constant):
            return False  # a variable key names "the current element": such locals are part of the code's vocabulary, keep them
        return _is_path(e.value, depth + 1) or isinstance(e.value, ast.Name)
    if isinstance(e, ast.Call) and isinstance(e.func, ast.Name) and e.func.id == "len" and len(e.args) == 1 and not e.keywords:
        return _is_path(e.args[0], 1) or isinstance(e.args[0], ast.Name)
    if isinstance(e, ast.Call) and isinstance(e.func, ast.Attribute) and e.func.attr in MATCH_ACCESSORS and not e.keywords \
            and all(isinstance(a, ast.Constant) for a in e.args):
        # m.group(1): a match object never changes, the accessor reads the same thing wherever it is written
        return isinstance(e.func.value, ast.Name) or _is_path(e.func.value, depth + 1)
    if isinstance(e, ast.BinOp) and isinstance(e.op, (ast.Add, ast.Sub)) and depth == 0:
        # len(path) - 1, path + 1: arithmetic on what a path holds
        sides = [e.left, e.right]
        return all(isinstance(x, ast.Constant) and isinstance(x.value, int) or _is_path(x, 0) for x in sides) \
            and any(not isinstance(x, ast.Constant) for x in sides)
    if isinstance(e, ast.Tuple) and e.elts and depth == 0:
        # a tuple of class references (isinstance second operand)
        return all(isinstance(x, ast.Name) or (isinstance(x, ast.Attribute) and isinstance(x.value, ast.Name)) for x in e.elts) \
            and all((x.id if isinstance(x, ast.Name) else x.attr)[:1].isupper() for x in e.elts)
    return False


def _roots(e):
    """Texts of every prefix of the path (a write to any of them invalidates the copy)."""
    out = set()
    for n in ast.walk(e):
        if isinstance(n, (ast.Name, ast.Attribute, ast.Subscript)):
            try:
                out.add(ast.unparse(n))
            except Exception:
                pass
    return out


def _writes(st):
    """Texts of the places a statement may modify (targets, mutator receivers, arguments handed to calls are ignored)."""
    out = set()
    for n in _walk_no_defs(st):
        if isinstance(n, (ast.Name, ast.Attribute, ast.Subscript)) and isinstance(getattr(n, "ctx", None), (ast.Store, ast.Del)):
            out.add(ast.unparse(n))
        if isinstance(n, ast.Call) and isinstance(n.func, ast.Attribute) and n.func.attr in MUTATORS:
            out.add(ast.unparse(n.func.value))
        if isinstance(n, ast.AugAssign):
            out.add(ast.unparse(n.target))
    return out


def propagate_paths(func):
    """Forward-substitute single-definition locals bound to an access path.  Returns the number of replaced uses."""
    node = func.node
    defs = {}
    for st in _walk_no_defs(node):
        if isinstance(st, ast.Assign) and len(st.targets) == 1 and isinstance(st.targets[0], ast.Name):
            defs.setdefault(st.targets[0].id, []).append(st)
        elif isinstance(st, (ast.AugAssign, ast.AnnAssign)) and isinstance(st.target, ast.Name):
            defs.setdefault(st.target.id, []).append(st)
        elif isinstance(st, (ast.For, ast.With, ast.comprehension)):
            tg = st.target if not isinstance(st, ast.With) else None
            for n in ast.walk(tg) if tg is not None else []:
                if isinstance(n, ast.Name):
                    defs.setdefault(n.id, []).append(st)
        elif isinstance(st, ast.ExceptHandler) and st.name:
            defs.setdefault(st.name, []).append(st)
    params = set(func.params) | set(func.kwonly)
    n_repl = 0
    stmts_in_order = [s for s in _walk_no_defs(node) if isinstance(s, ast.stmt) and s is not node]
    # textual order by position in the tree (statements made by the normalisation share line numbers)
    order = {id(n): i for i, n in enumerate(_preorder(node))}
    for name, ds in sorted(defs.items()):
        if len(ds) != 1 or name in params or not isinstance(ds[0], ast.Assign) or not _is_path(ds[0].value):
            continue
        d = ds[0]
        # the definition must not sit in a loop or a branch that some use is outside of: require the def to be a direct
        # statement of a block that contains (lexically) every use
        blk = getattr(d, "_parent", None)
        if blk is None:
            continue
        uses = [n for n in _walk_no_defs(node) if isinstance(n, ast.Name) and n.id == name and isinstance(n.ctx, ast.Load)]
        if not uses:
            continue

        def inside(n, anc):
            p = n
            while p is not None:
                if p is anc:
                    return True
                p = getattr(p, "_parent", None)
            return False
        if not all(inside(u, blk) for u in uses):
            continue
        roots = _roots(d.value) | {name}
        # a loop around the definition re-executes it: fine.  A write to the path anywhere after the definition (or anywhere in
        # a loop enclosing a use) makes the copy differ from the path: give up on uses after such a write.
        dline = order[id(d)]
        writers = [s for s in stmts_in_order if s is not d and inside(s, blk) and not any(inside(s, x) and x is not s for x in [d])
                   and (_writes(s) & roots) and not isinstance(s, (ast.If, ast.For, ast.While, ast.Try, ast.With, InlineBlock))]
        loops = []
        p = getattr(d, "_parent", None)
        ok_uses = []
        for u in uses:
            upos = order.get(id(u), -1)
            if upos <= dline:
                ok_uses = None
                break
            stale = False
            for w in writers:
                if inside(u, w):
                    continue  # read on the right-hand side of the very statement that writes: evaluated before the store
                wpos = order[id(w)]
                if dline < wpos < upos:
                    stale = True
                # a writer later in a loop that contains both
                q = getattr(u, "_parent", None)
                while q is not None and q is not blk:
                    if isinstance(q, (ast.For, ast.While)) and inside(w, q) and not inside(d, q):
                        stale = True
                    q = getattr(q, "_parent", None)
                # the use is in the same statement as the write's right-hand side (x = f(path)): value read before the store - fine
            if stale:
                ok_uses = None
                break
            ok_uses.append(u)
        if not ok_uses:
            continue
        for u in ok_uses:
            new = clone(d.value)
            for n in ast.walk(new):
                if hasattr(n, "lineno"):
                    n.lineno, n.col_offset = u.lineno, u.col_offset
                    n.end_lineno, n.end_col_offset = getattr(u, "end_lineno", u.lineno), getattr(u, "end_col_offset", u.col_offset)
            par = u._parent
            for fld, val in ast.iter_fields(par):
                if val is u:
                    setattr(par, fld, new)
                elif isinstance(val, list):
                    for i, x in enumerate(val):
                        if x is u:
                            val[i] = new
            n_repl += 1
        # every use now reads the path itself: the definition is dead
        par = d._parent
        for fld in ("body", "orelse", "finalbody"):
            lst = getattr(par, fld, None)
            if isinstance(lst, list) and d in lst:
                lst[lst.index(d)] = ast.copy_location(ast.Pass(), d)
    if n_repl:
        relink(node, getattr(node, "_parent", None))
    return n_repl


# ------------------------------------------------------------------------------------------------ module constants
BUILTIN_TYPE_NAMES = {"bytes", "str", "int", "float", "bool", "object", "list", "tuple", "dict", "set", "bytearray", "type"}


def _immutable_literal(e, consts, defs=()):
    if isinstance(e, ast.Constant):
        return True
    if isinstance(e, ast.Tuple):
        return all(_immutable_literal(x, consts, defs) or _class_ref(x) or (isinstance(x, ast.Name) and (x.id in defs or x.id in BUILTIN_TYPE_NAMES))
                   for x in e.elts)
    if isinstance(e, ast.Name):
        return e.id in consts
    if isinstance(e, ast.BinOp) and isinstance(e.op, (ast.Add, ast.Mod, ast.BitOr)):
        return _immutable_literal(e.left, consts) and _immutable_literal(e.right, consts)
    if isinstance(e, ast.Attribute) and isinstance(e.value, ast.Name) and e.value.id == "re" and e.attr.isupper():
        return True  # re.MULTILINE ...
    if isinstance(e, ast.Call) and isinstance(e.func, ast.Attribute) and isinstance(e.func.value, ast.Name) and e.func.value.id == "re" \
            and e.func.attr == "compile" and not e.keywords and e.args and all(_immutable_literal(a, consts) for a in e.args):
        return True
    if isinstance(e, ast.Call) and isinstance(e.func, ast.Name) and e.func.id in ("frozenset", "tuple", "bytes", "str") and not e.keywords \
            and len(e.args) == 1 and isinstance(e.args[0], (ast.Constant, ast.Tuple)) and _immutable_literal(e.args[0], consts):
        return True  # frozenset(b"\r\n\0"): an immutable value built from a literal
    return False


def _class_ref(e):
    if isinstance(e, ast.Name):
        return e.id[:1].isupper()
    return isinstance(e, ast.Attribute) and isinstance(e.value, ast.Name) and e.attr[:1].isupper()


def _only_compared(tree, name):
    """Every read of the module-level list `name` is an operand of a comparison / membership test or the source of an iteration:
    nothing can get hold of the object to change it, so it is as good as a literal at each of these places."""
    relink(tree, None)
    n_loads = 0
    for n in ast.walk(tree):
        if isinstance(n, ast.Name) and n.id == name and isinstance(n.ctx, ast.Load):
            n_loads += 1
            p = getattr(n, "_parent", None)
            if isinstance(p, ast.Compare):
                continue
            if isinstance(p, (ast.For, ast.comprehension)) and p.iter is n:
                continue
            return False
    return n_loads > 0


def inline_constants(module, known_names):
    """Module-level names bound once to an immutable literal (string, bytes, number, tuple of those or of class references, a pattern
    compiled from constants), not known to the rule set, are replaced by their value wherever they are read.  `f(*CONST)` with a
    literal tuple becomes positional arguments.  Returns the number of replaced reads."""
    tree = module.tree
    bound = {}
    for st in tree.body:
        tg = None
        if isinstance(st, ast.Assign) and len(st.targets) == 1 and isinstance(st.targets[0], ast.Name):
            tg, val = st.targets[0].id, st.value
        elif isinstance(st, ast.AnnAssign) and isinstance(st.target, ast.Name) and st.value is not None:
            tg, val = st.target.id, st.value
        if tg is not None:
            bound.setdefault(tg, []).append(val)
    # any other store (augmented assignment, global rebinding in a function, for target ...) disqualifies the name
    stores = {}
    for n in ast.walk(tree):
        if isinstance(n, ast.Name) and isinstance(n.ctx, (ast.Store, ast.Del)):
            stores[n.id] = stores.get(n.id, 0) + 1
        if isinstance(n, (ast.FunctionDef, ast.ClassDef)):
            stores[n.name] = stores.get(n.name, 0) + 1
        if isinstance(n, ast.arg):
            stores[n.arg] = stores.get(n.arg, 0) + 1
        if isinstance(n, ast.alias):
            nm = (n.asname or n.name).split(".")[0]
            stores[nm] = stores.get(nm, 0) + 1
    # functions and classes defined once at module level: a reference to one means the same thing wherever it is written
    defs = {st.name for st in tree.body if isinstance(st, (ast.FunctionDef, ast.ClassDef)) and stores.get(st.name, 0) == 1}
    consts = {}
    changed = True
    while changed:
        changed = False
        for nm, vals in bound.items():
            if nm in consts or nm in known_names or len(vals) != 1 or stores.get(nm, 0) != 1:
                continue
            if nm.startswith("__") and nm.endswith("__"):
                continue
            if _immutable_literal(vals[0], consts, defs) or (
                    isinstance(vals[0], ast.List) and all(isinstance(x, ast.Constant) for x in vals[0].elts) and _only_compared(tree, nm)):
                consts[nm] = vals[0]
                changed = True
    if not consts:
        return 0
    count = [0]

    class T(ast.NodeTransformer):
        def visit_Name(self, n):
            if isinstance(n.ctx, ast.Load) and n.id in consts:
                new = clone(consts[n.id])
                new = T().visit(new)  # constants defined from other constants
                for x in ast.walk(new):
                    if isinstance(x, ast.expr):
                        x.lineno, x.col_offset = n.lineno, n.col_offset
                        x.end_lineno, x.end_col_offset = getattr(n, "end_lineno", n.lineno), getattr(n, "end_col_offset", n.col_offset)
                count[0] += 1
                return new
            return n

        def visit_Call(self, c):
            self.generic_visit(c)
            if any(isinstance(a, ast.Starred) and isinstance(a.value, ast.Tuple) for a in c.args):
                args = []
                for a in c.args:
                    if isinstance(a, ast.Starred) and isinstance(a.value, ast.Tuple):
                        args.extend(a.value.elts)
                    else:
                        args.append(a)
                c.args = args
            return c
    for st in tree.body:
        if isinstance(st, (ast.FunctionDef, ast.ClassDef)):
            T().visit(st)
        elif isinstance(st, (ast.Assign, ast.AnnAssign)) and not (
                isinstance(st, ast.Assign) and isinstance(st.targets[0], ast.Name) and st.targets[0].id in consts):
            if st.value is not None:
                st.value = T().visit(st.value)
    if count[0]:
        relink(tree, None)
    return count[0]


# ------------------------------------------------------------------------------------------------ walrus
def hoist_walrus(func_node):
    """`if (m := E) is not None:` -> `m = E` followed by `if m is not None:` when the assignment expression is the first thing the
    test evaluates (so hoisting does not change when, or whether, E is evaluated).  Loop tests are left alone."""
    count = [0]
    seq = [0]

    def first_evaluated(test):
        """path (list of (parent, field, index)) to a NamedExpr that is evaluated first and unconditionally"""
        if isinstance(test, ast.NamedExpr):
            return test
        if isinstance(test, ast.UnaryOp):
            return first_evaluated(test.operand)
        if isinstance(test, ast.Compare):
            return first_evaluated(test.left)
        if isinstance(test, ast.BoolOp):
            return first_evaluated(test.values[0])
        if isinstance(test, ast.Call) and isinstance(test.func, ast.Attribute):
            return first_evaluated(test.func.value)
        return None

    def replace(root, old, new):
        for par in ast.walk(root):
            for fld, val in ast.iter_fields(par):
                if val is old:
                    setattr(par, fld, new)
                    return True
                if isinstance(val, list):
                    for i, x in enumerate(val):
                        if x is old:
                            val[i] = new
                            return True
        return False

    def block(stmts):
        out = []
        for st in stmts:
            for owner, fld, lst in _stmt_lists(st):
                if not isinstance(st, (ast.FunctionDef, ast.AsyncFunctionDef, ast.ClassDef)):
                    setattr(owner, fld, block(lst))
            if isinstance(st, ast.If) and isinstance(st.test, ast.BoolOp) and isinstance(st.test.op, ast.And):
                # `if A and (m := E):` -> `if A:` around `if (m := E):` (the second operand is only evaluated when A holds)
                vals = st.test.values
                k = next((i for i, v in enumerate(vals) if any(isinstance(n, ast.NamedExpr) for n in ast.walk(v))), None)
                if k is not None and k >= 1 and first_evaluated(vals[k]) is not None:
                    outer_t = vals[0] if k == 1 else ast.copy_location(ast.BoolOp(op=ast.And(), values=vals[:k]), st.test)
                    inner_t = vals[k] if k == len(vals) - 1 else ast.copy_location(ast.BoolOp(op=ast.And(), values=vals[k:]), st.test)
                    count[0] += 1
                    if not st.orelse:
                        inner = ast.copy_location(ast.If(test=inner_t, body=st.body, orelse=[]), st)
                        st.test = outer_t
                        st.body = block([inner])
                    else:
                        seq[0] += 1
                        lab = "walrus%d" % seq[0]
                        lv = InlineLeave()
                        lv.label = lab
                        ast.copy_location(lv, st)
                        inner = ast.copy_location(ast.If(test=inner_t, body=st.body + [lv], orelse=[]), st)
                        outer = ast.copy_location(ast.If(test=outer_t, body=block([inner]), orelse=[]), st)
                        blk = InlineBlock(body=[outer] + st.orelse)
                        blk.label = lab
                        blk.helper = "<walrus>"
                        ast.copy_location(blk, st)
                        out.append(blk)
                        continue
            if isinstance(st, ast.If):
                ne = first_evaluated(st.test)
                if ne is not None and isinstance(ne.target, ast.Name):
                    asg = ast.copy_location(ast.Assign(targets=[ast.Name(id=ne.target.id, ctx=ast.Store())], value=ne.value), st)
                    nm = ast.copy_location(ast.Name(id=ne.target.id, ctx=ast.Load()), ne)
                    if st.test is ne:
                        st.test = nm
                    else:
                        replace(st.test, ne, nm)
                    out.append(asg)
                    count[0] += 1
            out.append(st)
        return out
    func_node.body = block(func_node.body)
    if count[0]:
        relink(func_node, getattr(func_node, "_parent", None))
    return count[0]


# ------------------------------------------------------------------------------------------------ dispatch tables
def devirtualise(func_node):
    """A local dispatch table used once

        table = {"a": self.on_a, "b": self.on_b}
        handler = table.get(key)            # or table[key], or table.get(key, self.other)
        if handler is None: <refusal>       # optional
        return handler(x, y)                # or  v = handler(x, y)  /  handler(x, y)

    becomes the if/elif chain it abbreviates (`if key == "a": return self.on_a(x, y) elif ... else: <refusal>`), which the other
    passes and the rules understand.  Anything that does not have exactly this shape is left alone."""
    count = [0]

    def uses(name, nodes):
        return [n for st in nodes for n in ast.walk(st) if isinstance(n, ast.Name) and n.id == name]

    def block(stmts):
        for st in stmts:
            for owner, fld, lst in _stmt_lists(st):
                if not isinstance(st, (ast.FunctionDef, ast.AsyncFunctionDef, ast.ClassDef)):
                    setattr(owner, fld, block(lst))
        i = 0
        out = list(stmts)
        while i < len(out):
            st = out[i]
            ok = isinstance(st, ast.Assign) and len(st.targets) == 1 and isinstance(st.targets[0], ast.Name) and isinstance(st.value, ast.Dict) \
                and st.value.keys and all(isinstance(k, ast.Constant) for k in st.value.keys) \
                and all(isinstance(v, (ast.Attribute, ast.Name)) for v in st.value.values)
            if not ok:
                i += 1
                continue
            table = st.targets[0].id
            rest = out[i + 1:]
            if len(uses(table, rest)) != 1 or not rest:
                i += 1
                continue
            sel = rest[0]
            # handler = table.get(K[, default]) | table[K]
            hname = key = default = None
            subscript = False
            if isinstance(sel, ast.Assign) and len(sel.targets) == 1 and isinstance(sel.targets[0], ast.Name):
                v = sel.value
                if isinstance(v, ast.Call) and isinstance(v.func, ast.Attribute) and v.func.attr == "get" and isinstance(v.func.value, ast.Name) \
                        and v.func.value.id == table and 1 <= len(v.args) <= 2 and not v.keywords:
                    hname, key = sel.targets[0].id, v.args[0]
                    default = v.args[1] if len(v.args) == 2 else None
                elif isinstance(v, ast.Subscript) and isinstance(v.value, ast.Name) and v.value.id == table:
                    hname, key, subscript = sel.targets[0].id, v.slice, True
            if hname is None or not isinstance(key, (ast.Name, ast.Constant)):
                i += 1
                continue
            tail = rest[1:]
            refusal = None
            if tail and isinstance(tail[0], ast.If) and not tail[0].orelse:
                t = tail[0].test
                is_none = (isinstance(t, ast.Compare) and len(t.ops) == 1 and isinstance(t.ops[0], ast.Is) and isinstance(t.left, ast.Name)
                           and t.left.id == hname and isinstance(t.comparators[0], ast.Constant) and t.comparators[0].value is None) or (
                    isinstance(t, ast.UnaryOp) and isinstance(t.op, ast.Not) and isinstance(t.operand, ast.Name) and t.operand.id == hname)
                if is_none and not _falls_through(tail[0].body):
                    refusal = tail[0].body
                    tail = tail[1:]
            if not tail:
                i += 1
                continue
            use = tail[0]
            calls = [c for c in ast.walk(use) if isinstance(c, ast.Call) and isinstance(c.func, ast.Name) and c.func.id == hname]
            if len(calls) != 1 or len(uses(hname, tail)) != 1 or isinstance(use, (ast.For, ast.While, ast.If, ast.Try, ast.With)):
                i += 1
                continue

            def variant(target):
                u = clone(use)
                for c in ast.walk(u):
                    if isinstance(c, ast.Call) and isinstance(c.func, ast.Name) and c.func.id == hname:
                        c.func = clone(target)
                return u
            if refusal is None:
                if default is not None:
                    other = [variant(default)]
                else:
                    exc = "KeyError" if subscript else "TypeError"
                    other = [ast.Raise(exc=ast.Call(func=ast.Name(id=exc, ctx=ast.Load()), args=[], keywords=[]), cause=None)]
            else:
                other = list(refusal) if default is None else [variant(default)]
            chain = other
            for k, v in reversed(list(zip(st.value.keys, st.value.values))):
                test = ast.Compare(left=clone(key), ops=[ast.Eq()], comparators=[clone(k)])
                chain = [ast.If(test=test, body=[variant(v)], orelse=chain)]
            for n in ast.walk(chain[0]):
                if isinstance(n, (ast.stmt, ast.expr)) and not hasattr(n, "lineno"):
                    n.lineno, n.col_offset = use.lineno, use.col_offset
                    n.end_lineno, n.end_col_offset = getattr(use, "end_lineno", use.lineno), getattr(use, "end_col_offset", 0)
            consumed = 2 + (1 if refusal is not None else 0) + 1
            out[i:i + consumed] = chain
            count[0] += 1
            i += 1
        return out
    func_node.body = block(func_node.body)
    if count[0]:
        relink(func_node, getattr(func_node, "_parent", None))
    return count[0]



# ------------------------------------------------------------------------------------------------ tables of steps
def _bindings(func_node):
    """name -> number of bindings in the function (parameters, assignments, loop targets, defs, imports, with/except names),
    nested scopes not entered."""
    out = {}
    a = func_node.args
    for p in a.posonlyargs + a.args + a.kwonlyargs + ([a.vararg] if a.vararg else []) + ([a.kwarg] if a.kwarg else []):
        out[p.arg] = out.get(p.arg, 0) + 1
    comp_targets = set()
    for n in _walk_no_defs(func_node):
        if isinstance(n, ast.comprehension):
            for x in ast.walk(n.target):
                comp_targets.add(id(x))  # a comprehension's variable lives in the comprehension only
    for n in _walk_no_defs(func_node):
        if isinstance(n, ast.Name) and isinstance(n.ctx, (ast.Store, ast.Del)):
            if id(n) in comp_targets:
                continue
            out[n.id] = out.get(n.id, 0) + 1
        elif isinstance(n, ast.ExceptHandler) and n.name:
            out[n.name] = out.get(n.name, 0) + 1
        elif isinstance(n, ast.alias):
            nm = (n.asname or n.name).split(".")[0]
            out[nm] = out.get(nm, 0) + 1
    for n in ast.iter_child_nodes(func_node):
        pass
    for n in ast.walk(func_node):
        if n is not func_node and isinstance(n, (ast.FunctionDef, ast.AsyncFunctionDef, ast.ClassDef)) and _directly_in(n, func_node):
            out[n.name] = out.get(n.name, 0) + 1
    return out


def _directly_in(n, func_node):
    p = getattr(n, "_parent", None)
    while p is not None and p is not func_node:
        if isinstance(p, (ast.FunctionDef, ast.AsyncFunctionDef, ast.Lambda, ast.ClassDef)):
            return False
        p = getattr(p, "_parent", None)
    return p is func_node


def _table_elt(e, nb):
    """An element whose value does not depend on where it is evaluated inside the function."""
    if isinstance(e, ast.Constant):
        return True
    if isinstance(e, ast.Lambda):
        a = e.args
        return not (a.defaults or a.kw_defaults)  # free names are read when it is called, here as there
    if isinstance(e, ast.Name):
        return nb.get(e.id, 0) <= 1
    if isinstance(e, (ast.Tuple, ast.List)):
        return all(_table_elt(x, nb) for x in e.elts)
    return False


def _const_to_ast(v):
    if isinstance(v, tuple):
        return ast.Tuple(elts=[_const_to_ast(x) for x in v], ctx=ast.Load())
    return ast.Constant(value=v)


def _own_jumps(stmts):
    """break / continue statements of the loop whose body is stmts (inner loops keep theirs)."""
    out = []
    todo = list(stmts)
    while todo:
        n = todo.pop()
        if isinstance(n, (ast.Break, ast.Continue)):
            out.append(n)
        elif isinstance(n, (ast.For, ast.While, ast.AsyncFor)):
            todo.extend(n.orelse)
        elif isinstance(n, (ast.FunctionDef, ast.AsyncFunctionDef, ast.ClassDef)):
            continue
        else:
            for _, _, lst in _stmt_lists(n):
                todo.extend(lst)
            if isinstance(n, ast.With):
                pass
            if hasattr(ast, "Match") and isinstance(n, ast.Match):
                for c in n.cases:
                    todo.extend(c.body)
    return out


class _Subst(ast.NodeTransformer):
    def __init__(self, mapping):
        self.mapping = mapping

    def visit_Name(self, n):
        if isinstance(n.ctx, ast.Load) and n.id in self.mapping:
            return clone(self.mapping[n.id])
        return n

    def visit_Lambda(self, n):
        shadow = {a.arg for a in n.args.posonlyargs + n.args.args + n.args.kwonlyargs}
        if shadow & set(self.mapping):
            return n
        return self.generic_visit(n)


def _beta(root):
    """`(lambda a, b: e)(x, y)` -> e[a:=x, b:=y] when every argument is simple or used once."""
    count = [0]
    # a local bound once to a lambda and only ever called: the calls are calls of that lambda
    if isinstance(root, (ast.FunctionDef, ast.AsyncFunctionDef)):
        relink(root, getattr(root, "_parent", None))
        nb = _bindings(root)
        for st in list(_walk_no_defs(root)):
            if isinstance(st, ast.Assign) and len(st.targets) == 1 and isinstance(st.targets[0], ast.Name) and isinstance(st.value, ast.Lambda) \
                    and nb.get(st.targets[0].id, 0) == 1 and not (st.value.args.defaults or st.value.args.kw_defaults):
                nm = st.targets[0].id
                loads = [n for n in ast.walk(root) if isinstance(n, ast.Name) and n.id == nm and isinstance(n.ctx, ast.Load)]
                if loads and all(isinstance(getattr(n, "_parent", None), ast.Call) and n._parent.func is n for n in loads) \
                        and not ((_names(st.value.body) - {x.arg for x in st.value.args.args}) & {k for k, v in nb.items() if v > 1}):
                    for n in loads:
                        n._parent.func = clone(st.value)
                    par = getattr(st, "_parent", None)
                    for fld in ("body", "orelse", "finalbody"):
                        lst = getattr(par, fld, None)
                        if isinstance(lst, list) and st in lst:
                            lst[lst.index(st)] = ast.copy_location(ast.Pass(), st)
                    count[0] += 1

    class T(ast.NodeTransformer):
        def visit_Call(self, c):
            self.generic_visit(c)
            f = c.func
            if not isinstance(f, ast.Lambda) or c.keywords or any(isinstance(a, ast.Starred) for a in c.args):
                return c
            a = f.args
            if a.vararg or a.kwarg or a.kwonlyargs or a.defaults or a.kw_defaults:
                return c
            params = [p.arg for p in a.posonlyargs + a.args]
            if len(params) != len(c.args):
                return c
            uses = {}
            for n in ast.walk(f.body):
                if isinstance(n, ast.Name) and n.id in params:
                    uses[n.id] = uses.get(n.id, 0) + 1
                if isinstance(n, ast.Lambda):
                    return c
            for p, x in zip(params, c.args):
                if not isinstance(x, (ast.Name, ast.Constant)) and uses.get(p, 0) != 1:
                    return c
            count[0] += 1
            new = _Subst(dict(zip(params, c.args))).visit(clone(f.body))
            return ast.copy_location(new, c)
    T().visit(root)
    return count[0]


def unroll_tables(func_node):
    """Table-driven spellings are put back into straight-line code:

    * a local bound once to a literal tuple/list of constants, names and lambdas, and only iterated over, is replaced by the literal;
    * `for x in (<literal elements>)` (at most 8) becomes one copy of the body per element (break / continue become leaves);
    * `return all(e for x in <literal>)`, `v = any(...)`, `if all(...)` become the chain of tests they stand for;
    * `(lambda: e)()` becomes e.
    Returns the number of rewrites."""
    relink(func_node, getattr(func_node, "_parent", None))
    count = 0
    nb = _bindings(func_node)

    # -- (1) literal tables held in a local
    for st in list(func_node.body):
        if not (isinstance(st, ast.Assign) and len(st.targets) == 1 and isinstance(st.targets[0], ast.Name)
                and isinstance(st.value, (ast.Tuple, ast.List)) and st.value.elts):
            continue
        name = st.targets[0].id
        if nb.get(name, 0) != 1 or not all(_table_elt(e, nb) for e in st.value.elts):
            continue
        loads = [n for n in ast.walk(func_node) if isinstance(n, ast.Name) and n.id == name and isinstance(n.ctx, ast.Load)]
        if not loads:
            continue
        ok = True
        for n in loads:
            p = getattr(n, "_parent", None)
            if isinstance(p, ast.For) and p.iter is n and _directly_in(p, func_node):
                continue
            if isinstance(p, ast.comprehension) and p.iter is n:
                continue
            ok = False
        if not ok or any(getattr(n, "lineno", 0) < st.lineno for n in loads):
            continue
        for n in loads:
            p = n._parent
            p.iter = clone(st.value)
        func_node.body.remove(st)
        count += 1
    if count:
        relink(func_node, getattr(func_node, "_parent", None))

    seq = [0]

    def elements(it):
        if isinstance(it, (ast.Tuple, ast.List)):
            return list(it.elts)
        if isinstance(it, ast.Constant) and isinstance(it.value, tuple):
            return [_const_to_ast(v) for v in it.value]
        return None

    def destructure(target, elt):
        """[(name, expr)] or None"""
        if isinstance(target, ast.Name):
            return [(target.id, elt)]
        if isinstance(target, (ast.Tuple, ast.List)) and all(isinstance(t, ast.Name) for t in target.elts):
            parts = elements(elt)
            if parts is None or len(parts) != len(target.elts):
                return None
            return [(t.id, p) for t, p in zip(target.elts, parts)]
        return None

    def used_outside(name, loop):
        for n in ast.walk(func_node):
            if isinstance(n, ast.Name) and n.id == name and isinstance(n.ctx, ast.Load) and not _inside(n, loop):
                return True
        return False

    def mark(nodes, anchor):
        for r in nodes:
            for n in ast.walk(r):
                if isinstance(n, (ast.stmt, ast.expr)):
                    n._inl_anchor = anchor
                    if not hasattr(n, "lineno"):
                        n.lineno, n.col_offset, n.end_lineno, n.end_col_offset = anchor, 0, anchor, 0

    def leave_to(lab):
        lv = InlineLeave()
        lv.label = lab
        return lv

    def bind(pairs, body_src, loop, force_assign=False):
        """statements binding the pairs + a copy of body_src with the substitutable ones replaced"""
        stored = set()
        for s_ in body_src:
            stored |= _names(s_, store=True)
        captured = set()
        for s_ in body_src:
            for n in ast.walk(s_):
                if isinstance(n, (ast.Lambda, ast.FunctionDef, ast.AsyncFunctionDef)):
                    captured |= _names(n)
        mapping, pre = {}, []
        for nm, ex in pairs:
            if not force_assign and nm not in stored and nb.get(nm, 0) == 1 and _table_elt(ex, nb) and not isinstance(ex, (ast.Tuple, ast.List)) \
                    and (loop is None or not used_outside(nm, loop)) and nm not in captured:
                mapping[nm] = ex
            else:
                pre.append(ast.Assign(targets=[ast.Name(id=nm, ctx=ast.Store())], value=clone(ex)))
        body = [_Subst(mapping).visit(clone(s_)) for s_ in body_src] if mapping else clone(body_src)
        return pre, body

    def unroll(st):
        elts = elements(st.iter)
        if elts is None or len(elts) > 8 or st.orelse and not elts:
            return None
        per = []
        for e in elts:
            if isinstance(e, ast.Starred):
                return None
            pairs = destructure(st.target, e)
            if pairs is None:
                return None
            per.append(pairs)
        # a closure created in the body sees the loop variable's last value: leave such loops alone
        tnames = {nm for pairs in per for nm, _ in pairs}
        for s_ in st.body:
            for n in ast.walk(s_):
                if isinstance(n, (ast.Lambda, ast.FunctionDef, ast.AsyncFunctionDef)) and _names(n) & tnames:
                    return None
        jumps = _own_jumps(st.body)
        has_break = any(isinstance(j, ast.Break) for j in jumps)
        has_cont = any(isinstance(j, ast.Continue) for j in jumps)
        seq[0] += 1
        loop_label = "loop%d" % seq[0]
        out = []
        for k, pairs in enumerate(per):
            pre, body = bind(pairs, st.body, st)
            it_label = "%si%d" % (loop_label, k)

            def rej(stmts):
                res = []
                for s_ in stmts:
                    if isinstance(s_, ast.Break):
                        res.append(leave_to(loop_label))
                        continue
                    if isinstance(s_, ast.Continue):
                        res.append(leave_to(it_label))
                        continue
                    if isinstance(s_, (ast.For, ast.While, ast.AsyncFor)):
                        s_.orelse = rej(s_.orelse)
                    elif not isinstance(s_, (ast.FunctionDef, ast.AsyncFunctionDef, ast.ClassDef)):
                        for owner, fld, lst in _stmt_lists(s_):
                            setattr(owner, fld, rej(lst))
                    res.append(s_)
                return res
            if jumps:
                body = rej(body)
            if has_cont:
                blk = InlineBlock(body=body or [ast.Pass()])
                blk.label = it_label
                blk.helper = "<unrolled loop>"
                body = [blk]
            out.extend(pre + body)
        out.extend(clone(st.orelse))
        if has_break:
            blk = InlineBlock(body=out or [ast.Pass()])
            blk.label = loop_label
            blk.helper = "<unrolled loop>"
            out = [blk]
        if not out:
            out = [ast.Pass()]
        mark(out, int(getattr(st, "_inl_anchor", st.lineno)))
        return out

    def quantifier(e):
        """(kind, elt, pairs per element, ifs) for all(<genexpr over a literal>) / any(...)"""
        if not (isinstance(e, ast.Call) and isinstance(e.func, ast.Name) and e.func.id in ("all", "any") and len(e.args) == 1
                and not e.keywords and isinstance(e.args[0], ast.GeneratorExp) and len(e.args[0].generators) == 1):
            return None  # (a LIST comprehension is built completely before all()/any() looks at it: no short-circuit, left as written)
        if nb.get(e.func.id, 0):
            return None
        g = e.args[0].generators[0]
        if g.is_async:
            return None
        elts = elements(g.iter)
        if elts is None or not 0 < len(elts) <= 8:
            return None
        per = []
        for x in elts:
            if isinstance(x, ast.Starred) or not _table_elt(x, nb):
                return None
            pairs = destructure(g.target, x)
            if pairs is None:
                return None
            per.append(pairs)
        return e.func.id, e.args[0].elt, per, list(g.ifs)

    def expand_quantifier(q, on_decided, anchor):
        """statements: for each element, `if [not] elt: <on_decided>`"""
        kind, elt, per, ifs = q
        out = []
        for pairs in per:
            mapping = {nm: ex for nm, ex in pairs}
            t = _Subst(mapping).visit(clone(elt))
            test = ast.UnaryOp(op=ast.Not(), operand=t) if kind == "all" else t
            cur = [ast.If(test=test, body=on_decided(), orelse=[])]
            for c in reversed(ifs):
                cur = [ast.If(test=_Subst(mapping).visit(clone(c)), body=cur, orelse=[])]
            out.extend(cur)
        return out

    def first_match(e):
        """(elt, pairs per element, ifs, default) for next(<genexpr over a literal>[, default])"""
        if not (isinstance(e, ast.Call) and isinstance(e.func, ast.Name) and e.func.id == "next" and 1 <= len(e.args) <= 2
                and not e.keywords and isinstance(e.args[0], ast.GeneratorExp) and len(e.args[0].generators) == 1) or nb.get("next", 0):
            return None
        g = e.args[0].generators[0]
        elts = elements(g.iter)
        if g.is_async or elts is None or not 0 < len(elts) <= 8:
            return None
        per = []
        for x in elts:
            if isinstance(x, ast.Starred) or not _table_elt(x, nb):
                return None
            pairs = destructure(g.target, x)
            if pairs is None:
                return None
            per.append(pairs)
        default = e.args[1] if len(e.args) == 2 else None
        if default is not None and not isinstance(default, (ast.Constant, ast.Name)):
            return None
        return e.args[0].elt, per, list(g.ifs), default

    def search_loop(st):
        """x = next((E for T in IT if C), D)  ->  x = D; for T in IT: if C: x = E; break
           return any(C for T in IT)           ->  for T in IT: if C: return True; return False      (all: `if not C: return False`)"""
        def gen_of(e, fn, nargs):
            if isinstance(e, ast.Call) and isinstance(e.func, ast.Name) and e.func.id == fn and not nb.get(fn, 0) and not e.keywords \
                    and len(e.args) in nargs and isinstance(e.args[0], ast.GeneratorExp) and len(e.args[0].generators) == 1 \
                    and not e.args[0].generators[0].is_async and elements(e.args[0].generators[0].iter) is None:
                g = e.args[0].generators[0]
                tn = {n.id for n in ast.walk(g.target) if isinstance(n, ast.Name)}
                if any(nb.get(t, 0) for t in tn):
                    return None  # the loop variable would overwrite a variable of the function
                # names read after the statement must not be the (now function-level) loop variable: guaranteed by nb == 0
                return e.args[0], g
            return None

        def conds(g):
            if not g.ifs:
                return None
            return g.ifs[0] if len(g.ifs) == 1 else ast.BoolOp(op=ast.And(), values=list(g.ifs))
        if isinstance(st, ast.Assign) and len(st.targets) == 1 and isinstance(st.targets[0], ast.Name):
            r = gen_of(st.value, "next", (1, 2))
            if r is not None and isinstance(r[0], ast.GeneratorExp):
                ge, g = r
                tgt = st.targets[0].id
                found = [ast.Assign(targets=[ast.Name(id=tgt, ctx=ast.Store())], value=ge.elt), ast.Break()]
                c = conds(g)
                body = [ast.If(test=c, body=found, orelse=[])] if c is not None else found
                if len(st.value.args) == 2:
                    if not isinstance(st.value.args[1], (ast.Constant, ast.Name)):
                        return None
                    pre = [ast.Assign(targets=[ast.Name(id=tgt, ctx=ast.Store())], value=st.value.args[1])]
                    orelse = []
                else:
                    pre = []
                    orelse = [ast.Raise(exc=ast.Call(func=ast.Name(id="StopIteration", ctx=ast.Load()), args=[], keywords=[]), cause=None)]
                for t in {n.id for n in ast.walk(g.target) if isinstance(n, ast.Name)}:
                    nb[t] = nb.get(t, 0) + 1
                return pre + [ast.For(target=g.target, iter=g.iter, body=body, orelse=orelse)]
        if isinstance(st, ast.Return) and st.value is not None:
            for fn in ("any", "all"):
                r = gen_of(st.value, fn, (1,))
                if r is not None:
                    ge, g = r
                    t = ge.elt if fn == "any" else ast.UnaryOp(op=ast.Not(), operand=ge.elt)
                    inner = [ast.If(test=t, body=[ast.Return(value=ast.Constant(value=(fn == "any")))], orelse=[])]
                    c = conds(g)
                    body = [ast.If(test=c, body=inner, orelse=[])] if c is not None else inner
                    for tname in {n.id for n in ast.walk(g.target) if isinstance(n, ast.Name)}:
                        nb[tname] = nb.get(tname, 0) + 1
                    return [ast.For(target=g.target, iter=g.iter, body=body, orelse=[]), ast.Return(value=ast.Constant(value=(fn != "any")))]
        return None

    skip = set()

    def block(stmts):
        nonlocal count
        out = []
        for idx, st in enumerate(stmts):
            if id(st) in skip:
                continue
            pending = stmts[idx + 1:idx + 2]
            if isinstance(st, (ast.FunctionDef, ast.AsyncFunctionDef, ast.ClassDef)):
                out.append(st)
                continue
            for owner, fld, lst in _stmt_lists(st):
                setattr(owner, fld, block(lst))
            if isinstance(st, ast.For):
                rep = unroll(st)
                if rep is not None:
                    count += 1
                    out.extend(rep)
                    continue
            anchor = int(getattr(st, "_inl_anchor", getattr(st, "lineno", 0)))
            if isinstance(st, ast.Return) and st.value is not None:
                q = quantifier(st.value)
                if q is not None:
                    decided = q[0] != "all"
                    rep = expand_quantifier(q, lambda: [ast.Return(value=ast.Constant(value=decided))], anchor)
                    rep.append(ast.Return(value=ast.Constant(value=not decided)))
                    mark(rep, anchor)
                    count += 1
                    out.extend(rep)
                    continue
            if isinstance(st, ast.Assign) and len(st.targets) == 1 and isinstance(st.targets[0], ast.Name):
                q = quantifier(st.value)
                if q is not None:
                    seq[0] += 1
                    lab = "quant%d" % seq[0]
                    decided = q[0] != "all"
                    tgt = st.targets[0].id
                    rep = expand_quantifier(q, lambda: [ast.Assign(targets=[ast.Name(id=tgt, ctx=ast.Store())],
                                                                   value=ast.Constant(value=decided)), leave_to(lab)], anchor)
                    rep.append(ast.Assign(targets=[ast.Name(id=tgt, ctx=ast.Store())], value=ast.Constant(value=not decided)))
                    blk = InlineBlock(body=rep)
                    blk.label = lab
                    blk.helper = "<quantifier>"
                    mark([blk], anchor)
                    count += 1
                    out.append(blk)
                    continue
            # searches written as generator expressions over any iterable: the explicit loop they abbreviate
            srch = search_loop(st)
            if srch is not None:
                mark(srch, anchor)
                count += 1
                out.extend(srch)
                continue
            if isinstance(st, ast.Assign) and len(st.targets) == 1 and isinstance(st.targets[0], ast.Name):
                sel = first_match(st.value)
                if sel is not None:
                    tgt = st.targets[0].id
                    elt, per, ifs, default = sel
                    nxt = pending[0] if pending else None
                    # the statement that follows is the only reader of the selected value: it is executed per branch
                    sink = None
                    if nxt is not None and isinstance(nxt, (ast.Expr, ast.Assign, ast.Return, ast.AugAssign)) and nb.get(tgt, 0) == 1:
                        loads = [n for n in ast.walk(func_node) if isinstance(n, ast.Name) and n.id == tgt and isinstance(n.ctx, ast.Load)]
                        if loads and all(_inside(n, nxt) for n in loads) and not any(isinstance(n, (ast.Lambda, ast.ListComp, ast.GeneratorExp)) for n in ast.walk(nxt)):
                            sink = nxt

                    def branch(val):
                        if sink is not None and isinstance(val, (ast.Name, ast.Constant, ast.Attribute)):
                            return [_Subst({tgt: val}).visit(clone(sink))]
                        b = [ast.Assign(targets=[ast.Name(id=tgt, ctx=ast.Store())], value=val)]
                        return b + ([clone(sink)] if sink is not None else [])
                    if default is None:
                        chain = [ast.Raise(exc=ast.Call(func=ast.Name(id="StopIteration", ctx=ast.Load()), args=[], keywords=[]), cause=None)]
                    else:
                        chain = branch(clone(default))
                    for pairs in reversed(per):
                        mapping = {nm: ex for nm, ex in pairs}
                        val = _Subst(mapping).visit(clone(elt))
                        conds = [_Subst(mapping).visit(clone(c)) for c in ifs]
                        if not conds:
                            chain = branch(val)
                            continue
                        test = conds[0] if len(conds) == 1 else ast.BoolOp(op=ast.And(), values=conds)
                        chain = [ast.If(test=test, body=branch(val), orelse=chain)]
                    mark(chain, anchor)
                    count += 1
                    out.extend(chain)
                    if sink is not None:
                        skip.add(id(sink))
                    continue
            if isinstance(st, ast.If):
                neg = isinstance(st.test, ast.UnaryOp) and isinstance(st.test.op, ast.Not)
                q = quantifier(st.test.operand if neg else st.test)
                if q is not None:
                    seq[0] += 1
                    lab = "quant%d" % seq[0]
                    # truth of the quantifier when an element decides it / when none does
                    decided = q[0] != "all"
                    then_on_decided = (decided != neg)
                    body_dec = st.body if then_on_decided else st.orelse
                    body_und = st.orelse if then_on_decided else st.body
                    if _size(body_dec) <= 12:
                        rep = expand_quantifier(q, lambda: clone(body_dec) + [leave_to(lab)], anchor)
                        rep.extend(body_und)
                        blk = InlineBlock(body=rep or [ast.Pass()])
                        blk.label = lab
                        blk.helper = "<quantifier>"
                        mark([blk], anchor)
                        count += 1
                        out.append(blk)
                        continue
            out.append(st)
        return out

    func_node.body = block(func_node.body)
    count += _beta(func_node)
    if count:
        relink(func_node, getattr(func_node, "_parent", None))
    return count


# ------------------------------------------------------------------------------------------------ assignments
def simplify_assignments(func_node):
    """`a, b = x, y` -> `a = x; b = y` when no later right-hand side can see an earlier target;
    `a, b = E.groups()` -> `m_ = E; a = m_.group(1); b = m_.group(2)` (an unpacking that succeeds proves the group count).
    Returns the number of rewritten statements."""
    count = [0]
    seq = [0]
    relink(func_node, getattr(func_node, "_parent", None))
    taken = _names(func_node)

    def independent(targets, values):
        for i, t in enumerate(targets):
            for j in range(i + 1, len(values)):
                e = values[j]
                if isinstance(t, ast.Name):
                    if t.id in _names(e):
                        return False
                    # a closure called in e could read the local
                    if any(isinstance(n, ast.Lambda) for n in ast.walk(e)):
                        return False
                else:
                    if any(isinstance(n, ast.Call) for n in ast.walk(e)):
                        return False
                    if ast.unparse(t) in _roots(e) or (_roots(t) - {ast.unparse(t)}) & set():
                        return False
                    base = t
                    while isinstance(base, (ast.Attribute, ast.Subscript)):
                        base = base.value
                    if isinstance(t, ast.Subscript):
                        return False
        # targets evaluated left to right read nothing that an earlier target stores
        for i, t in enumerate(targets):
            for u in targets[i + 1:]:
                if isinstance(t, ast.Name) and t.id in {n.id for n in ast.walk(u) if isinstance(n, ast.Name) and isinstance(n.ctx, ast.Load)}:
                    return False
        return True

    def block(stmts):
        out = []
        for st in stmts:
            if isinstance(st, (ast.FunctionDef, ast.AsyncFunctionDef, ast.ClassDef)):
                out.append(st)
                continue
            for owner, fld, lst in _stmt_lists(st):
                setattr(owner, fld, block(lst))
            if isinstance(st, ast.Assign) and len(st.targets) == 1 and isinstance(st.targets[0], (ast.Tuple, ast.List)) \
                    and not any(isinstance(t, ast.Starred) for t in st.targets[0].elts):
                tg = st.targets[0].elts
                v = st.value
                if isinstance(v, (ast.Tuple, ast.List)) and len(v.elts) == len(tg) and not any(isinstance(x, ast.Starred) for x in v.elts) \
                        and independent(tg, v.elts):
                    for t, e in zip(tg, v.elts):
                        out.append(ast.copy_location(ast.Assign(targets=[t], value=e), st))
                    count[0] += 1
                    continue
                if isinstance(v, ast.Call) and isinstance(v.func, ast.Attribute) and v.func.attr == "groups" and not v.args and not v.keywords \
                        and all(isinstance(t, ast.Name) for t in tg):
                    recv = v.func.value
                    if isinstance(recv, ast.Name):
                        mname = recv.id
                    else:
                        seq[0] += 1
                        mname = "match_%d" % seq[0]
                        while mname in taken:
                            seq[0] += 1
                            mname = "match_%d" % seq[0]
                        out.append(ast.copy_location(ast.Assign(targets=[ast.Name(id=mname, ctx=ast.Store())], value=recv), st))
                    if mname not in {t.id for t in tg}:
                        for i, t in enumerate(tg):
                            call = ast.Call(func=ast.Attribute(value=ast.Name(id=mname, ctx=ast.Load()), attr="group", ctx=ast.Load()),
                                            args=[ast.Constant(value=i + 1)], keywords=[])
                            out.append(ast.copy_location(ast.Assign(targets=[t], value=call), st))
                        for n_ in out[-len(tg) - 1:]:
                            ast.fix_missing_locations(n_)
                        count[0] += 1
                        continue
                    elif not isinstance(recv, ast.Name):
                        out.pop()
                # `a, b = m.span()` -> `a = m.start(); b = m.end()` (m a plain name, targets do not involve it)
                if isinstance(v, ast.Call) and isinstance(v.func, ast.Attribute) and v.func.attr == "span" and not v.args and not v.keywords \
                        and isinstance(v.func.value, ast.Name) and len(tg) == 2 and v.func.value.id not in _names(st.targets[0]):
                    for t, acc in zip(tg, ("start", "end")):
                        call = ast.Call(func=ast.Attribute(value=ast.Name(id=v.func.value.id, ctx=ast.Load()), attr=acc, ctx=ast.Load()),
                                        args=[], keywords=[])
                        a_ = ast.copy_location(ast.Assign(targets=[t], value=call), st)
                        ast.fix_missing_locations(a_)
                        out.append(a_)
                    count[0] += 1
                    continue
            # `a = b = E` with E a constant, a name or a match accessor: one assignment per target, left to right
            if isinstance(st, ast.Assign) and len(st.targets) > 1 and all(isinstance(t, (ast.Name, ast.Attribute)) for t in st.targets) \
                    and _repeatable(st.value) and not any(_names(t) & _names(st.value) for t in st.targets if isinstance(t, ast.Name)) \
                    and not any(ast.unparse(t) in {ast.unparse(x) for x in ast.walk(st.value)} for t in st.targets):
                for t in st.targets:
                    a_ = ast.copy_location(ast.Assign(targets=[t], value=clone(st.value)), st)
                    ast.fix_missing_locations(a_)
                    out.append(a_)
                count[0] += 1
                continue
            # `x += E - x` -> `x = E` (x a name or self.attr, E does not call anything that could write x)
            if isinstance(st, ast.AugAssign) and isinstance(st.op, ast.Add) and isinstance(st.value, ast.BinOp) and isinstance(st.value.op, ast.Sub) \
                    and isinstance(st.target, (ast.Name, ast.Attribute)) and ast.unparse(st.value.right) == ast.unparse(st.target) \
                    and _repeatable(st.value.left):
                tgt = clone(st.target)
                a_ = ast.copy_location(ast.Assign(targets=[tgt], value=st.value.left), st)
                ast.fix_missing_locations(a_)
                out.append(a_)
                count[0] += 1
                continue
            out.append(st)
        return out
    func_node.body = block(func_node.body)
    if count[0]:
        relink(func_node, getattr(func_node, "_parent", None))
    return count[0]


def _repeatable(e):
    """Evaluating e twice gives the same value and has no effect: constants, names, self.attr, match accessors, len() of those."""
    if isinstance(e, (ast.Constant, ast.Name)):
        return True
    if isinstance(e, ast.Attribute):
        return _repeatable(e.value)
    if isinstance(e, ast.Call) and isinstance(e.func, ast.Attribute) and e.func.attr in MATCH_ACCESSORS and isinstance(e.func.value, ast.Name) \
            and not e.keywords and all(isinstance(a, ast.Constant) for a in e.args):
        return True
    if isinstance(e, ast.Call) and isinstance(e.func, ast.Name) and e.func.id == "len" and len(e.args) == 1 and not e.keywords:
        return _repeatable(e.args[0])
    return False


def lift_conditionals(func_node):
    """`x = A if T else B` / `return A if T else B` -> an if statement with one assignment / return per branch, so that the flow
    graph carries T as a fact over A and B.  Returns the number of lifted statements."""
    count = [0]

    def block(stmts):
        out = []
        for st in stmts:
            if isinstance(st, (ast.FunctionDef, ast.AsyncFunctionDef, ast.ClassDef)):
                out.append(st)
                continue
            for owner, fld, lst in _stmt_lists(st):
                setattr(owner, fld, block(lst))
            v = getattr(st, "value", None)
            if isinstance(st, (ast.Assign, ast.Return, ast.AnnAssign)) and isinstance(v, ast.IfExp):
                if isinstance(st, ast.Assign) and not all(isinstance(t, (ast.Name, ast.Attribute)) for t in st.targets):
                    out.append(st)  # a subscript target is evaluated after the value: keep the order as written
                    continue
                def mk(val):
                    if isinstance(st, ast.Return):
                        new = ast.Return(value=val)
                    elif isinstance(st, ast.AnnAssign):
                        new = ast.Assign(targets=[clone(st.target)], value=val)
                    else:
                        new = ast.Assign(targets=[clone(t) for t in st.targets], value=val)
                    new = ast.copy_location(new, st)
                    return block([new])
                node = ast.copy_location(ast.If(test=v.test, body=mk(v.body), orelse=mk(v.orelse)), st)
                count[0] += 1
                out.append(node)
                continue
            out.append(st)
        return out
    func_node.body = block(func_node.body)
    if count[0]:
        relink(func_node, getattr(func_node, "_parent", None))
    return count[0]


def strip_annotations(func_node):
    """`x: T = v` -> `x = v`, `x: T` -> nothing, inside function bodies (an annotation there has no run-time meaning for the rules:
    the statement is an assignment like any other).  Returns the number of rewritten statements."""
    count = [0]

    def block(stmts):
        out = []
        for st in stmts:
            if isinstance(st, (ast.FunctionDef, ast.AsyncFunctionDef, ast.ClassDef)):
                out.append(st)
                continue
            for owner, fld, lst in _stmt_lists(st):
                setattr(owner, fld, block(lst))
            if isinstance(st, ast.AnnAssign):
                count[0] += 1
                if st.value is None:
                    out.append(ast.copy_location(ast.Pass(), st))
                else:
                    out.append(ast.copy_location(ast.Assign(targets=[st.target], value=st.value), st))
                continue
            out.append(st)
        return out
    func_node.body = block(func_node.body)
    if count[0]:
        relink(func_node, getattr(func_node, "_parent", None))
    return count[0]


_DISJOINT = {"str", "bytes", "int", "float", "list", "dict", "tuple", "set"}


def fold_declared_types(func_node, distrusted=()):
    """`isinstance(p, T)` on a parameter declared `p: T0` (T0 a builtin type, p never rebound in the function) is decided by the
    declaration: True when T0 is (one of) T, False when T names other builtin types only.  The branch that cannot be taken under the
    function's own contract is removed (type-coercion helpers copied into a typed caller: `to_bytes(content)` with `content: str` is
    `content.encode(..)`).  ASSUMPTION (stated in the evidence): callers pass values of the declared builtin type.
    Returns the number of decided tests."""
    decl = {}
    a = func_node.args
    for x in a.posonlyargs + a.args + a.kwonlyargs:
        if isinstance(x.annotation, ast.Name) and x.annotation.id in _DISJOINT and x.arg not in distrusted:
            decl[x.arg] = x.annotation.id
    if not decl:
        return 0
    for n in _walk_no_defs(func_node):
        if isinstance(n, ast.Name) and n.id in decl and not isinstance(n.ctx, ast.Load):
            decl.pop(n.id, None)
    for n in ast.walk(func_node):
        if n is not func_node and isinstance(n, (ast.FunctionDef, ast.AsyncFunctionDef, ast.Lambda)):
            for x in ast.walk(n):
                if isinstance(x, ast.arg):
                    decl.pop(x.arg, None)
    if not decl:
        return 0
    count = [0]

    def verdict(c):
        if not (isinstance(c, ast.Call) and isinstance(c.func, ast.Name) and c.func.id == "isinstance" and len(c.args) == 2 and not c.keywords
                and isinstance(c.args[0], ast.Name) and c.args[0].id in decl):
            return None
        t = c.args[1]
        names = [t] if isinstance(t, ast.Name) else list(t.elts) if isinstance(t, ast.Tuple) else None
        if names is None or not all(isinstance(x, ast.Name) and x.id in _DISJOINT for x in names):
            return None
        return decl[c.args[0].id] in {x.id for x in names}

    class T(ast.NodeTransformer):
        def visit_Call(self, c):
            self.generic_visit(c)
            v = verdict(c)
            if v is None:
                return c
            count[0] += 1
            return ast.copy_location(ast.Constant(value=v), c)
    T().visit(func_node)
    if count[0]:
        relink(func_node, getattr(func_node, "_parent", None))
        prune_decided(func_node)
    return count[0]


def prune_decided(func_node):
    """`if True: A else: B` -> A, `if False: A else: B` -> B, `not <const>` folded; statements after a return / raise / leave in the
    same list are dropped."""
    def const_test(t):
        if isinstance(t, ast.Constant) and isinstance(t.value, bool):
            return t.value
        if isinstance(t, ast.UnaryOp) and isinstance(t.op, ast.Not):
            v = const_test(t.operand)
            return None if v is None else not v
        return None

    def block(stmts):
        out = []
        for st in stmts:
            if isinstance(st, (ast.FunctionDef, ast.AsyncFunctionDef, ast.ClassDef)):
                out.append(st)
                continue
            for owner, fld, lst in _stmt_lists(st):
                setattr(owner, fld, block(lst) or ([ast.copy_location(ast.Pass(), st)] if fld == "body" else []))
            if isinstance(st, ast.If):
                v = const_test(st.test)
                if v is not None:
                    out.extend(st.body if v else st.orelse)
                    if out and isinstance(out[-1], (ast.Return, ast.Raise, InlineLeave, ast.Break, ast.Continue)):
                        break
                    continue
            out.append(st)
            if isinstance(st, (ast.Return, ast.Raise, InlineLeave, ast.Break, ast.Continue)):
                break
        return out

    class E(ast.NodeTransformer):
        def visit_IfExp(self, e):
            self.generic_visit(e)
            v = const_test(e.test)
            return e if v is None else (e.body if v else e.orelse)
    E().visit(func_node)
    func_node.body = block(func_node.body) or [ast.copy_location(ast.Pass(), func_node)]
    relink(func_node, getattr(func_node, "_parent", None))


def drop_logging(func_node, loggers):
    """Statements `logger.debug(...)` / `.info` / `.warning` ... on a module-level logging.getLogger() object whose arguments only
    read (names, attributes, constants, pure conversions) are dropped: what they print is no part of any property, and they cannot
    change what the function does.  Returns the number of dropped statements."""
    count = [0]
    LEVELS = {"debug", "info", "warning", "warn", "error", "critical", "exception", "log"}

    def readonly(e):
        if isinstance(e, (ast.Constant, ast.Name)):
            return True
        if isinstance(e, ast.Attribute):
            return readonly(e.value)
        if isinstance(e, ast.Subscript):
            return readonly(e.value) and readonly(e.slice)
        if isinstance(e, (ast.Tuple, ast.List)):
            return all(readonly(x) for x in e.elts)
        return _pure_expr(e)

    def block(stmts):
        out = []
        for st in stmts:
            if isinstance(st, (ast.FunctionDef, ast.AsyncFunctionDef, ast.ClassDef)):
                out.append(st)
                continue
            for owner, fld, lst in _stmt_lists(st):
                setattr(owner, fld, block(lst))
            if isinstance(st, ast.Expr) and isinstance(st.value, ast.Call) and isinstance(st.value.func, ast.Attribute) \
                    and st.value.func.attr in LEVELS and isinstance(st.value.func.value, ast.Name) and st.value.func.value.id in loggers \
                    and all(readonly(a) for a in st.value.args) and all(readonly(k.value) for k in st.value.keywords):
                count[0] += 1
                out.append(ast.copy_location(ast.Pass(), st))
                continue
            # `if logger.isEnabledFor(LEVEL): <only logging>` - the guard of a trace whose arguments are costly to build
            if isinstance(st, ast.If) and not st.orelse and isinstance(st.test, ast.Call) and isinstance(st.test.func, ast.Attribute) \
                    and st.test.func.attr == "isEnabledFor" and isinstance(st.test.func.value, ast.Name) and st.test.func.value.id in loggers:
                def only_logging(x):
                    if isinstance(x, ast.Pass):
                        return True
                    if isinstance(x, ast.Expr) and isinstance(x.value, ast.Call) and isinstance(x.value.func, ast.Attribute) \
                            and x.value.func.attr in LEVELS and isinstance(x.value.func.value, ast.Name) and x.value.func.value.id in loggers:
                        # inside the guard the arguments may compute (join over the filters ...) as long as they only read
                        return not any(isinstance(n_, (ast.Await, ast.Yield, ast.YieldFrom, ast.NamedExpr)) for n_ in ast.walk(x)) and not any(
                            isinstance(n_, ast.Call) and isinstance(n_.func, ast.Attribute) and n_.func.attr in MUTATORS for n_ in ast.walk(x))
                    return False
                if all(only_logging(x) for x in st.body):
                    count[0] += 1
                    out.append(ast.copy_location(ast.Pass(), st))
                    continue
            out.append(st)
        return out
    func_node.body = block(func_node.body)
    if count[0]:
        relink(func_node, getattr(func_node, "_parent", None))
    return count[0]


def thread_joins(func_node):
    """Two restructurings that give the flow graph the facts the source states through booleans:

    * `if C: a = X1 ... else: a = X2 ...` followed by `if a: ...` (a test of names that BOTH branches assign) and a short rest of the block:
      the rest is copied to the end of both branches (each copy then tests the value its own branch computed);
    * `c = E` ... `if c:` / `if not c:` in the same block, separated only by assignments to other plain locals, where that test is the
      only reader of c: E is written in the test itself.
    Returns the number of rewrites."""
    count = [0]
    relink(func_node, getattr(func_node, "_parent", None))

    def assigned_plain(stmts):
        out = None
        names = set()
        for s_ in stmts:
            if isinstance(s_, ast.Assign) and len(s_.targets) == 1 and isinstance(s_.targets[0], ast.Name):
                names.add(s_.targets[0].id)
        return names

    def simple_value(e):
        return not any(isinstance(n, (ast.Call, ast.Await, ast.Yield, ast.YieldFrom, ast.NamedExpr, ast.Lambda)) and not (
            isinstance(n, ast.Call) and _pure_expr(n)) for n in ast.walk(e))

    def dup(stmts):
        out = list(stmts)
        i = 0
        while i < len(out) - 1:
            a, b = out[i], out[i + 1]
            if isinstance(a, ast.If) and a.body and a.orelse and isinstance(b, ast.If) and _falls_through(a.body) and _falls_through(a.orelse):
                both = assigned_plain(a.body) & assigned_plain(a.orelse)
                tnames = {n.id for n in ast.walk(b.test) if isinstance(n, ast.Name)}
                rest = out[i + 1:]
                if both and tnames and tnames <= both and _size(rest) <= 12 and not any(
                        isinstance(n, (ast.FunctionDef, ast.ClassDef, ast.Lambda)) for r in rest for n in ast.walk(r)) \
                        and not any(isinstance(n, (ast.Break, ast.Continue)) for r in list(a.body) + list(a.orelse) for n in ast.walk(r)):
                    a.body = list(a.body) + clone(rest)
                    a.orelse = list(a.orelse) + rest
                    del out[i + 1:]
                    count[0] += 1
                    break
            i += 1
        return out

    def fold(stmts):
        out = list(stmts)
        changed = True
        while changed:
            changed = False
            for i, d in enumerate(out):
                if not (isinstance(d, ast.Assign) and len(d.targets) == 1 and isinstance(d.targets[0], ast.Name)):
                    continue
                x = d.targets[0].id
                if x in _names(d.value):
                    continue
                # the next statement that is not an assignment to another plain local
                j = i + 1
                ok = True
                vnames = _names(d.value)
                while j < len(out) and isinstance(out[j], ast.Assign) and len(out[j].targets) == 1 and isinstance(out[j].targets[0], ast.Name) \
                        and out[j].targets[0].id != x and out[j].targets[0].id not in vnames and x not in _names(out[j].value) \
                        and simple_value(out[j].value):
                    j += 1
                if j >= len(out) or not isinstance(out[j], ast.If):
                    continue
                if j > i + 1 and not simple_value(d.value):
                    continue  # E would be evaluated after the statements in between
                t = out[j].test
                hit = None
                if isinstance(t, ast.Name) and t.id == x:
                    hit = "plain"
                elif isinstance(t, ast.UnaryOp) and isinstance(t.op, ast.Not) and isinstance(t.operand, ast.Name) and t.operand.id == x:
                    hit = "not"
                if hit is None:
                    continue
                # that test is the only reader: count loads of x in the function against the (def, test) pairs of this shape
                loads = [n for n in ast.walk(func_node) if isinstance(n, ast.Name) and n.id == x and isinstance(n.ctx, ast.Load)]
                pairs = pair_count(x)
                if len(loads) != pairs:
                    continue
                if hit == "plain":
                    out[j].test = d.value
                else:
                    out[j].test.operand = d.value
                del out[i]
                count[0] += 1
                changed = True
                break
        return out

    def pair_count(x):
        n = 0
        for node in ast.walk(func_node):
            for _, _, lst in _stmt_lists(node) if isinstance(node, (ast.stmt, ast.ExceptHandler)) or node is func_node else []:
                for i, d in enumerate(lst):
                    if isinstance(d, ast.Assign) and len(d.targets) == 1 and isinstance(d.targets[0], ast.Name) and d.targets[0].id == x:
                        j = i + 1
                        while j < len(lst) and isinstance(lst[j], ast.Assign) and len(lst[j].targets) == 1 and isinstance(lst[j].targets[0], ast.Name) \
                                and lst[j].targets[0].id != x and x not in _names(lst[j].value):
                            j += 1
                        if j < len(lst) and isinstance(lst[j], ast.If):
                            t = lst[j].test
                            if (isinstance(t, ast.Name) and t.id == x) or (isinstance(t, ast.UnaryOp) and isinstance(t.op, ast.Not)
                                                                           and isinstance(t.operand, ast.Name) and t.operand.id == x):
                                if x not in _names(ast.Module(body=list(lst[j].body) + list(lst[j].orelse), type_ignores=[])):
                                    n += 1
        return n

    def block(stmts, fn):
        out = []
        for st in stmts:
            if isinstance(st, (ast.FunctionDef, ast.AsyncFunctionDef, ast.ClassDef)):
                out.append(st)
                continue
            out.append(st)
        out = fn(out)
        for st in out:
            if isinstance(st, (ast.FunctionDef, ast.AsyncFunctionDef, ast.ClassDef)):
                continue
            for owner, fld, lst in _stmt_lists(st):
                setattr(owner, fld, block(lst, fn))
        return out
    func_node.body = block(func_node.body, dup)
    if count[0]:
        relink(func_node, getattr(func_node, "_parent", None))
    func_node.body = block(func_node.body, fold)
    if count[0]:
        relink(func_node, getattr(func_node, "_parent", None))
    return count[0]


def order_lines(func_node):
    """Statements written by the normalisation carry the line of the statement they came from.  Give consecutive statements that
    share a line strictly increasing (fractional) numbers, in tree order, so that rules ordering statements by line keep working;
    reports print the integer part."""
    last = None
    for st in _preorder(func_node):
        if not isinstance(st, ast.stmt) or st is func_node or not hasattr(st, "lineno"):
            continue
        ln = st.lineno
        if last is not None and ln <= last and int(ln) == int(last):
            new = last + 1e-4
            for n in ast.walk(st):
                if hasattr(n, "lineno") and n.lineno == ln:
                    n.lineno = new
                    if hasattr(n, "end_lineno") and getattr(n, "end_lineno", None) is not None and n.end_lineno < new:
                        n.end_lineno = new
            ln = new
        last = ln


def fold_constants(func_node):
    """`"a" + "b"` -> `"ab"`, `(x,) + (y,)` -> `(x, y)` (what is left after parameters were replaced by literal arguments)."""
    count = [0]

    class T(ast.NodeTransformer):
        def visit_Subscript(self, n):
            self.generic_visit(n)
            if isinstance(n.ctx, ast.Load) and isinstance(n.value, ast.Constant) and isinstance(n.value.value, (str, bytes, tuple)) \
                    and isinstance(n.slice, ast.Constant) and isinstance(n.slice.value, int):
                try:
                    v = n.value.value[n.slice.value]
                except Exception:
                    return n
                if isinstance(n.value.value, bytes):
                    return n  # indexing bytes gives an int: leave it to the reader
                count[0] += 1
                return ast.copy_location(ast.Constant(value=v), n)
            return n

        def visit_BinOp(self, b):
            self.generic_visit(b)
            if isinstance(b.op, ast.Add):
                l, r = b.left, b.right
                if isinstance(l, ast.Constant) and isinstance(r, ast.Constant) and type(l.value) is type(r.value) and isinstance(l.value, (str, bytes)):
                    count[0] += 1
                    return ast.copy_location(ast.Constant(value=l.value + r.value), b)
                if isinstance(l, ast.Tuple) and isinstance(r, ast.Tuple) and not any(isinstance(x, ast.Starred) for x in l.elts + r.elts):
                    count[0] += 1
                    return ast.copy_location(ast.Tuple(elts=l.elts + r.elts, ctx=ast.Load()), b)
            return b
    T().visit(func_node)
    if count[0]:
        relink(func_node, getattr(func_node, "_parent", None))
    return count[0]


def inline_class_constants(module, known_class_names):
    """Class-level names bound once to an immutable literal (`STRING_TOKENS = ("string", "multiline")`), not known to the rule set
    and never assigned through an instance or the class, are replaced by their value where methods of the class read them
    (`self.NAME`, `cls.NAME`, `<Class>.NAME`).  Returns the number of replaced reads."""
    tree = module.tree
    count = [0]
    # every attribute store in the module, by attribute name
    stored_attrs = set()
    for n in ast.walk(tree):
        if isinstance(n, ast.Attribute) and isinstance(n.ctx, (ast.Store, ast.Del)):
            stored_attrs.add(n.attr)
    class_bound = {}
    for st in tree.body:
        if isinstance(st, ast.ClassDef):
            for s_ in st.body:
                tg = None
                if isinstance(s_, ast.Assign) and len(s_.targets) == 1 and isinstance(s_.targets[0], ast.Name):
                    tg = s_.targets[0].id
                elif isinstance(s_, ast.AnnAssign) and isinstance(s_.target, ast.Name) and s_.value is not None:
                    tg = s_.target.id
                if tg is not None:
                    class_bound.setdefault(tg, []).append((st, s_))
    for name, places in class_bound.items():
        if len(places) != 1:
            continue  # redefined in another class of the module (possibly a subclass)
        cls, st = places[0]
        if name in known_class_names.get(cls.name, ()) or (name.startswith("__") and name.endswith("__")):
            continue
        mangled = "_%s%s" % (cls.name.lstrip("_"), name) if name.startswith("__") else name
        if name in stored_attrs or mangled in stored_attrs:
            continue
        val = st.value
        if not (_immutable_literal(val, {}) and not isinstance(val, ast.Name)):
            continue
        if isinstance(val, ast.Call):
            continue  # compiled patterns stay where they are (the rules know class-level patterns)
        # other names of the class body must not shadow it inside methods: only attribute reads are replaced
        for m in cls.body:
            if not isinstance(m, (ast.FunctionDef, ast.AsyncFunctionDef)):
                continue
            first = m.args.args[0].arg if m.args.args else None

            class T(ast.NodeTransformer):
                def visit_Attribute(self, a):
                    self.generic_visit(a)
                    if isinstance(a.ctx, ast.Load) and a.attr == name and isinstance(a.value, ast.Name) and a.value.id in (first, cls.name, "cls"):
                        new = clone(val)
                        for x in ast.walk(new):
                            if isinstance(x, ast.expr):
                                x.lineno, x.col_offset = a.lineno, a.col_offset
                                x.end_lineno, x.end_col_offset = getattr(a, "end_lineno", a.lineno), getattr(a, "end_col_offset", a.col_offset)
                        count[0] += 1
                        return new
                    return a

                def visit_Call(self, c):
                    self.generic_visit(c)
                    if any(isinstance(x, ast.Starred) and isinstance(x.value, ast.Tuple) for x in c.args):
                        args = []
                        for x in c.args:
                            if isinstance(x, ast.Starred) and isinstance(x.value, ast.Tuple):
                                args.extend(x.value.elts)
                            else:
                                args.append(x)
                        c.args = args
                    return c
            T().visit(m)
    if count[0]:
        relink(tree, None)
    return count[0]


def numbered_groups(module):
    """`m.group("status")` -> `m.group(1)`, `m["text"]` / `m[2]` -> `m.group(2)`, for a match object `m` obtained in the same function
    from a pattern whose text is known (a compiled attribute / constant of the module, or a pattern written at the call).  The group
    names are read off the pattern text by the standard regex PARSER (nothing is compiled or run).  Returns the number of rewrites."""
    import re as _re
    try:
        parser = _re._parser
    except AttributeError:  # pragma: no cover
        import sre_parse as parser
    tree = module.tree
    pats = {}  # attribute / global name -> pattern constant

    def const_pat(e):
        if isinstance(e, ast.Constant) and isinstance(e.value, (bytes, str)):
            return e.value
        return None
    for n in ast.walk(tree):
        if isinstance(n, (ast.Assign, ast.AnnAssign)) and isinstance(n.value, ast.Call) and isinstance(n.value.func, ast.Attribute) \
                and n.value.func.attr == "compile" and isinstance(n.value.func.value, ast.Name) and n.value.func.value.id == "re" and n.value.args:
            p = const_pat(n.value.args[0])
            for t in (n.targets if isinstance(n, ast.Assign) else [n.target]):
                key = t.attr if isinstance(t, ast.Attribute) else (t.id if isinstance(t, ast.Name) else None)
                if key is not None:
                    pats[key] = p if key not in pats or pats[key] == p else None

    def groupdict(p):
        if p is None:
            return None
        try:
            return dict(parser.parse(p).state.groupdict)
        except Exception:
            return None

    def pattern_of_call(c):
        """pattern text of `<regex>.match(...)` / `re.match(<pat>, ...)`"""
        if not (isinstance(c, ast.Call) and isinstance(c.func, ast.Attribute) and c.func.attr in ("match", "search", "fullmatch")):
            return None
        r = c.func.value
        if isinstance(r, ast.Name) and r.id == "re" and c.args:
            return const_pat(c.args[0])
        if isinstance(r, ast.Call) and isinstance(r.func, ast.Attribute) and r.func.attr == "compile" and r.args:
            return const_pat(r.args[0])
        key = r.attr if isinstance(r, ast.Attribute) else (r.id if isinstance(r, ast.Name) else None)
        return pats.get(key)
    count = [0]
    for fn in ast.walk(tree):
        if not isinstance(fn, (ast.FunctionDef, ast.AsyncFunctionDef)):
            continue
        defs = {}
        for a in _walk_no_defs(fn):
            if isinstance(a, ast.Assign) and len(a.targets) == 1 and isinstance(a.targets[0], ast.Name):
                defs.setdefault(a.targets[0].id, []).append(a.value)
            elif isinstance(a, ast.NamedExpr) and isinstance(a.target, ast.Name):
                defs.setdefault(a.target.id, []).append(a.value)
        maps = {}
        for v, vals in defs.items():
            gds = [groupdict(pattern_of_call(x)) for x in vals]
            if gds and all(g is not None for g in gds):
                # one variable may hold the matches of several patterns in turn: a group name is resolved when every pattern
                # that has a group of that name gives it the same number
                merged = {}
                for g in gds:
                    for k, i in g.items():
                        merged.setdefault(k, set()).add(i)
                maps[v] = {k: next(iter(i)) for k, i in merged.items() if len(i) == 1}
        if not maps:
            continue

        class T(ast.NodeTransformer):
            def visit_Call(self, c):
                self.generic_visit(c)
                if isinstance(c.func, ast.Attribute) and c.func.attr == "group" and isinstance(c.func.value, ast.Name) and c.func.value.id in maps \
                        and len(c.args) == 1 and isinstance(c.args[0], ast.Constant) and isinstance(c.args[0].value, str) \
                        and c.args[0].value in maps[c.func.value.id]:
                    c.args[0] = ast.copy_location(ast.Constant(value=maps[c.func.value.id][c.args[0].value]), c.args[0])
                    count[0] += 1
                return c

            def visit_Subscript(self, n):
                self.generic_visit(n)
                if isinstance(n.ctx, ast.Load) and isinstance(n.value, ast.Name) and n.value.id in maps and isinstance(n.slice, ast.Constant):
                    k = n.slice.value
                    if isinstance(k, str) and k in maps[n.value.id]:
                        k = maps[n.value.id][k]
                    if isinstance(k, int) and not isinstance(k, bool):
                        count[0] += 1
                        return ast.copy_location(ast.Call(func=ast.Attribute(value=n.value, attr="group", ctx=ast.Load()),
                                                          args=[ast.Constant(value=k)], keywords=[]), n)
                return n
        T().visit(fn)
        ast.fix_missing_locations(fn)
    if count[0]:
        relink(tree, None)
    return count[0]
