"""Statement-level control-flow graph with short-circuit decomposition of
branch conditions, explicit edge ("fact") nodes, exceptional edges into
handlers, and path / dominance / guard queries by plain reachability.

Graphs here have at most a few hundred nodes, so every query is a BFS.
"""
import ast
from .inline import InlineBlock, InlineLeave
from collections import deque

from .model import walk_no_nested, norm


class Node:
    __slots__ = ("id", "kind", "ast", "expr", "pol", "site", "succ", "pred", "info")

    def __init__(self, nid, kind, astnode=None, expr=None, pol=None, site=None, info=None):
        self.id = nid
        self.kind = kind  # entry exit raise stmt test fact loop handler join
        self.ast = astnode
        self.expr = expr  # for test/fact: the atomic condition
        self.pol = pol  # for fact: True/False outcome of expr
        self.site = site  # If/While/... statement the test belongs to
        self.succ = []  # list of (node, label) label in {"n","exc"}
        self.pred = []
        self.info = info

    @property
    def lineno(self):
        for a in (self.ast, self.expr, self.site):
            if a is not None and hasattr(a, "lineno"):
                return a.lineno
        return 0

    def __repr__(self):
        if self.kind == "fact":
            return "<%d fact %s=%s>" % (self.id, norm(self.expr), self.pol)
        if self.kind == "test":
            return "<%d test %s>" % (self.id, norm(self.expr))
        if self.kind == "stmt":
            return "<%d stmt L%d %s>" % (self.id, self.lineno, norm(self.ast)[:50].replace("\n", " "))
        return "<%d %s>" % (self.id, self.kind)


class CFG:
    def __init__(self, func_node, program=None, substitute_flags=True):
        self.func = func_node
        self.program = program
        self.nodes = []
        self.substitute_flags = substitute_flags
        self.entry = self._new("entry")
        self.exit = self._new("exit")  # normal return
        self.raise_exit = self._new("raise")  # exception leaves the function
        self.by_ast = {}  # id(ast stmt/expr) -> [nodes]
        self._build()

    # ---- construction -----------------------------------------------------
    def _new(self, kind, **kw):
        n = Node(len(self.nodes), kind, **kw)
        self.nodes.append(n)
        return n

    def _edge(self, a, b, label="n"):
        if a is None or b is None:
            return
        if (b, label) not in a.succ:
            a.succ.append((b, label))
            b.pred.append((a, label))

    def _reg(self, astnode, node):
        self.by_ast.setdefault(id(astnode), []).append(node)

    def _build(self):
        ctx = {"break": None, "continue": None, "handlers": []}
        first = self._block(self.func.body, self.exit, ctx)
        self._edge(self.entry, first)

    def _block(self, stmts, follow, ctx):
        """Build nodes for stmts; control continues at `follow`. Returns the
        entry node of the block."""
        nxt = follow
        built = []
        for i in range(len(stmts) - 1, -1, -1):
            nxt = self._stmt(stmts[i], nxt, ctx, stmts, i)
        return nxt

    def _exc_edges(self, node, ctx):
        """Implicit exceptions: a statement inside a try body may jump to any
        handler of the enclosing try statements."""
        for hs in ctx["handlers"]:
            for h in hs:
                self._edge(node, h, "exc")

    def _raise_targets(self, exc_expr, ctx):
        """Where an explicit raise goes: innermost handler that may match."""
        name = None
        if exc_expr is not None:
            e = exc_expr.func if isinstance(exc_expr, ast.Call) else exc_expr
            if isinstance(e, ast.Name):
                name = e.id
            elif isinstance(e, ast.Attribute):
                name = e.attr
        targets = []
        for hs in reversed(ctx["handlers"]):
            sure = False
            for h in hs:
                m = self._handler_match(h.ast, name)
                if m in ("yes", "maybe"):
                    targets.append(h)
                if m == "yes":
                    sure = True
                    break
            if sure:
                return targets
        targets.append(self.raise_exit)
        return targets

    def _handler_match(self, handler, raised):
        if handler.type is None:
            return "yes"
        types = handler.type.elts if isinstance(handler.type, ast.Tuple) else [handler.type]
        names = []
        for t in types:
            if isinstance(t, ast.Name):
                names.append(t.id)
            elif isinstance(t, ast.Attribute):
                names.append(t.attr)
        if raised is None:
            return "maybe"
        if raised in names or "Exception" in names or "BaseException" in names:
            return "yes"
        if self.program is not None:
            c = self.program.cls(raised)
            if c is not None:
                mro = [x.name for x in self.program.mro(c)]
                if any(n in mro for n in names):
                    return "yes"
                # class known in the program and none of its bases caught; the
                # unknown external bases (Exception) were checked above
                return "no"
        return "maybe"

    def _stmt(self, st, follow, ctx, siblings, idx):
        if isinstance(st, InlineBlock):
            # statements of an inlined helper: `InlineLeave` (a return of the helper) continues after the block
            ictx = dict(ctx)
            ictx["leave:%s" % getattr(st, "label", "")] = follow
            return self._block(st.body, follow, ictx)
        if isinstance(st, InlineLeave):
            n = self._new("stmt", astnode=st, info="inline-leave")
            self._reg(st, n)
            self._edge(n, ctx.get("leave:%s" % getattr(st, "label", ""), follow))
            return n
        if isinstance(st, ast.If):
            body = self._block(st.body, follow, ctx)
            orelse = self._block(st.orelse, follow, ctx) if st.orelse else follow
            return self._cond(st.test, body, orelse, st, ctx, siblings, idx)
        if isinstance(st, ast.While):
            head = self._new("join", astnode=st, info="while")
            self._reg(st, head)
            after = self._block(st.orelse, follow, ctx) if st.orelse else follow
            lctx = dict(ctx)
            lctx["break"] = follow
            lctx["continue"] = head
            body = self._block(st.body, head, lctx)
            const = _const_truth(st.test)
            if const is True:
                first = body
            elif const is False:
                first = after
            else:
                first = self._cond(st.test, body, after, st, ctx, siblings, idx)
            self._edge(head, first)
            return head
        if isinstance(st, ast.For):
            it = self._new("stmt", astnode=st, info="for-iter")
            it.expr = st.iter
            self._reg(st, it)
            if ctx["handlers"]:
                self._exc_edges(it, ctx)
            head = self._new("loop", astnode=st)
            self._reg(st, head)
            self._edge(it, head)
            after = self._block(st.orelse, follow, ctx) if st.orelse else follow
            lctx = dict(ctx)
            lctx["break"] = follow
            lctx["continue"] = head
            body = self._block(st.body, head, lctx)
            nxt = self._new("fact", expr=st.iter, pol=True, site=st, info="for-next")
            done = self._new("fact", expr=st.iter, pol=False, site=st, info="for-done")
            self._edge(head, nxt)
            self._edge(head, done)
            self._edge(nxt, body)
            self._edge(done, after)
            if ctx["handlers"]:
                self._exc_edges(head, ctx)
            return it
        if isinstance(st, ast.Try):
            after_final = follow
            if st.finalbody:
                after_final = self._block(st.finalbody, follow, ctx)
            handlers = []
            for h in st.handlers:
                hn = self._new("handler", astnode=h)
                self._reg(h, hn)
                handlers.append(hn)
            hctx = dict(ctx)  # handler bodies are outside this try's protection
            for h, hn in zip(st.handlers, handlers):
                hb = self._block(h.body, after_final, hctx)
                self._edge(hn, hb)
            orelse = self._block(st.orelse, after_final, ctx) if st.orelse else after_final
            bctx = dict(ctx)
            bctx["handlers"] = ctx["handlers"] + [handlers]
            body = self._block(st.body, orelse, bctx)
            tn = self._new("join", astnode=st, info="try")
            self._reg(st, tn)
            self._edge(tn, body)
            return tn
        if isinstance(st, ast.With):
            n = self._new("stmt", astnode=st, info="with")
            self._reg(st, n)
            body = self._block(st.body, follow, ctx)
            self._edge(n, body)
            if ctx["handlers"]:
                self._exc_edges(n, ctx)
            return n
        if isinstance(st, (ast.FunctionDef, ast.ClassDef)):
            n = self._new("stmt", astnode=st, info="def")
            self._reg(st, n)
            self._edge(n, follow)
            return n
        n = self._new("stmt", astnode=st)
        self._reg(st, n)
        if isinstance(st, ast.Return):
            self._edge(n, self.exit)
        elif isinstance(st, ast.Raise):
            for t in self._raise_targets(st.exc, ctx):
                self._edge(n, t, "n")
            return n
        elif isinstance(st, ast.Break):
            self._edge(n, ctx["break"])
        elif isinstance(st, ast.Continue):
            self._edge(n, ctx["continue"])
        else:
            self._edge(n, follow)
        if ctx["handlers"] and _may_raise(st):
            self._exc_edges(n, ctx)
        return n

    def _flag_def(self, name, siblings, idx):
        """`name = <expr>` immediately visible in the same statement list
        before position idx, with no intervening rebinding of name."""
        if not self.substitute_flags or siblings is None:
            return None
        for j in range(idx - 1, -1, -1):
            s = siblings[j]
            if isinstance(s, ast.Assign) and len(s.targets) == 1 and isinstance(s.targets[0], ast.Name) \
                    and s.targets[0].id == name:
                self._flag_at = j
                return s.value
            if isinstance(s, ast.AnnAssign) and isinstance(s.target, ast.Name) and s.target.id == name \
                    and s.value is not None:
                self._flag_at = j
                return s.value
            if name in assigned_names(s):
                return None
        return None

    def _cond(self, test, tnode, fnode, site, ctx, siblings=None, idx=0):
        """Decompose a condition; returns entry node."""
        if isinstance(test, ast.BoolOp):
            vals = test.values
            if isinstance(test.op, ast.And):
                nxt = tnode
                for v in reversed(vals):
                    nxt = self._cond(v, nxt, fnode, site, ctx, siblings, idx)
                return nxt
            nxt = fnode
            for v in reversed(vals):
                nxt = self._cond(v, tnode, nxt, site, ctx, siblings, idx)
            return nxt
        if isinstance(test, ast.UnaryOp) and isinstance(test.op, ast.Not):
            return self._cond(test.operand, fnode, tnode, site, ctx, siblings, idx)
        flagdef = None
        if isinstance(test, ast.Name):
            d = self._flag_def(test.id, siblings, idx)
            if d is not None and isinstance(d, (ast.BoolOp, ast.Compare)) or (
                    isinstance(d, ast.UnaryOp) and isinstance(d.op, ast.Not)):
                # flags the definition itself reads (`value_ok = type_ok and ...`) are looked up before that definition
                return self._cond(d, tnode, fnode, site, ctx, siblings, self._flag_at)
            if d is not None and isinstance(d, ast.Call):
                flagdef = d  # keep the name as the tested atom, remember what it was bound to
        t = self._new("test", expr=test, site=site)
        t.info = flagdef
        self._reg(test, t)
        self._reg(site, t)
        ft = self._new("fact", expr=test, pol=True, site=site, info=flagdef)
        ff = self._new("fact", expr=test, pol=False, site=site, info=flagdef)
        self._edge(t, ft)
        self._edge(t, ff)
        if flagdef is not None:
            # the outcome of the flag is the outcome of the call it was bound to: both facts lie on the edge
            ft2 = self._new("fact", expr=flagdef, pol=True, site=site, info=None)
            ff2 = self._new("fact", expr=flagdef, pol=False, site=site, info=None)
            self._edge(ft, ft2)
            self._edge(ff, ff2)
            ft, ff = ft2, ff2
        self._edge(ft, tnode)
        self._edge(ff, fnode)
        if ctx["handlers"] and _may_raise(test):
            self._exc_edges(t, ctx)
        return t

    # ---- queries ------------------------------------------------------------
    def reach(self, srcs, avoid=(), exc=True, forward=True):
        if isinstance(srcs, Node):
            srcs = [srcs]
        avoid = set(avoid)
        seen = set()
        dq = deque(s for s in srcs if s not in avoid)
        seen.update(dq)
        while dq:
            n = dq.popleft()
            for m, lab in (n.succ if forward else n.pred):
                if lab == "exc" and not exc:
                    continue
                if m in avoid or m in seen:
                    continue
                seen.add(m)
                dq.append(m)
        return seen

    def reachable(self, exc=True):
        return self.reach(self.entry, exc=exc)

    def dominates(self, a_set, b, exc=True):
        """Every entry->b path passes through a node of a_set."""
        if isinstance(a_set, Node):
            a_set = [a_set]
        a_set = set(a_set)
        if b in a_set:
            return True
        return b not in self.reach(self.entry, avoid=a_set, exc=exc)

    def path_exists(self, a, b, avoid=(), exc=True):
        return b in self.reach(a, avoid=avoid, exc=exc)

    def nodes_for(self, astnode):
        return list(self.by_ast.get(id(astnode), []))

    def node_containing(self, expr):
        """CFG node(s) whose AST contains the given expression node."""
        out = []
        p = expr
        while p is not None:
            if id(p) in self.by_ast:
                # for compound statements only the test nodes hold expressions
                cands = self.by_ast[id(p)]
                if isinstance(p, (ast.If, ast.While)):
                    cands = [c for c in cands if c.kind == "test" and _contains(c.expr, expr)]
                elif isinstance(p, ast.For):
                    cands = [c for c in cands if c.info == "for-iter" and _contains(p.iter, expr)]
                if cands:
                    return cands
            p = getattr(p, "_parent", None)
        # substituted flag definitions: expression lives in an Assign whose
        # value was decomposed at the branch; the Assign stmt node itself exists
        return out

    def stmt_nodes(self):
        return [n for n in self.nodes if n.kind == "stmt"]

    def facts(self, pred=None):
        return [n for n in self.nodes if n.kind == "fact" and (pred is None or pred(n))]

    def guarded(self, target, fact_pred, kill_pred=None, exc=True, establish=None):
        """True iff on every entry->target path a fact node satisfying
        fact_pred (or any node satisfying `establish`) is crossed and no node
        satisfying kill_pred follows it before target."""
        start = (self.entry, False)
        seen = {start}
        dq = deque([start])
        while dq:
            n, g = dq.popleft()
            if n is target and not g:
                return False
            for m, lab in n.succ:
                if lab == "exc" and not exc:
                    continue
                g2 = g
                if m.kind == "fact" and fact_pred(m):
                    g2 = True
                elif establish is not None and m is not target and establish(m):
                    g2 = True
                elif kill_pred is not None and m is not target and m.kind in ("stmt", "loop") and kill_pred(m):
                    g2 = False
                st = (m, g2)
                if st not in seen:
                    seen.add(st)
                    dq.append(st)
        return True

    def unguarded_path(self, target, fact_pred, kill_pred=None, exc=True):
        """A witness path (list of nodes) reaching target unguarded, or None."""
        start = (self.entry, False)
        parent = {start: None}
        dq = deque([start])
        while dq:
            cur = dq.popleft()
            n, g = cur
            if n is target and not g:
                path = []
                while cur is not None:
                    path.append(cur[0])
                    cur = parent[cur]
                return list(reversed(path))
            for m, lab in n.succ:
                if lab == "exc" and not exc:
                    continue
                g2 = g
                if m.kind == "fact" and fact_pred(m):
                    g2 = True
                elif kill_pred is not None and m is not target and m.kind in ("stmt", "loop") and kill_pred(m):
                    g2 = False
                st = (m, g2)
                if st not in parent:
                    parent[st] = cur
                    dq.append(st)
        return None

    def in_cycle(self, node, exc=True):
        return any(node in self.reach(m, exc=exc) for m, lab in node.succ if not (lab == "exc" and not exc))

    def cycle_nodes(self, node, exc=True):
        """Nodes on some cycle through node."""
        fwd = self.reach([m for m, lab in node.succ if exc or lab != "exc"], exc=exc)
        if node not in fwd:
            return set()
        bwd = self.reach([m for m, lab in node.pred if exc or lab != "exc"], exc=exc, forward=False)
        return (fwd & bwd) | {node}

    def describe_path(self, path):
        out = []
        for n in path:
            if n.kind in ("stmt", "fact", "test"):
                out.append("L%d:%s" % (n.lineno, ("%s is %s" % (norm(n.expr), n.pol)) if n.kind == "fact" else
                                       (norm(n.ast)[:60] if n.kind == "stmt" else "test " + norm(n.expr))))
        return out


def _contains(root, node):
    if root is None:
        return False
    for n in ast.walk(root):
        if n is node:
            return True
    return False


def _const_truth(e):
    if isinstance(e, ast.Constant):
        return bool(e.value)
    return None


def _may_raise(node):
    for n in walk_no_nested(node):
        if isinstance(n, (ast.Call, ast.Subscript, ast.Attribute, ast.BinOp, ast.Raise, ast.Starred)):
            return True
        if isinstance(n, ast.Assign) and any(isinstance(t, (ast.Tuple, ast.List)) for t in n.targets):
            return True
    return False


def assigned_names(st):
    """Local names (re)bound anywhere inside statement st."""
    out = set()
    for n in walk_no_nested(st):
        if isinstance(n, ast.Name) and isinstance(n.ctx, (ast.Store, ast.Del)):
            out.add(n.id)
        elif isinstance(n, (ast.FunctionDef, ast.ClassDef)):
            out.add(n.name)
    return out


def assigned_targets(st):
    """Normalised text of every store target inside st (names, attributes,
    subscripts), e.g. {'self.pos', 'x', "f['enabled']"}; augmented
    assignments included."""
    out = set()
    for n in walk_no_nested(st):
        if isinstance(n, (ast.Name, ast.Attribute, ast.Subscript)) and isinstance(getattr(n, "ctx", None), (ast.Store, ast.Del)):
            out.add(norm(n))
    return out


def names_in(expr):
    return {n.id for n in ast.walk(expr) if isinstance(n, ast.Name)}


def chains_in(expr):
    """Normalised text of names and attribute chains read in expr."""
    out = set()
    for n in ast.walk(expr):
        if isinstance(n, (ast.Name, ast.Attribute)):
            out.add(norm(n))
    return out


def make_kill(expr):
    """kill predicate: a statement node that rebinds something expr reads."""
    reads = chains_in(expr)

    def kill(node):
        a = node.ast
        if a is None:
            return False
        if node.kind == "loop":
            tg = {norm(x) for x in ast.walk(a.target) if isinstance(x, (ast.Name, ast.Attribute))}
            return bool(tg & reads)
        if isinstance(a, (ast.If, ast.While, ast.For, ast.Try, ast.With)):
            return False
        return bool(assigned_targets(a) & reads)

    return kill
