"""Shared helpers for rules: normalised branch facts, call sites, intra-class
call graph with decorator wrappers and getattr dispatch, effect queries."""
import ast

from .model import (AnalysisError, walk_no_nested, norm, call_name, is_self_call, self_attr, mangle,
                    enclosing_func, stmt_of)
from .consteval import Evaluator, TOP


def fact_atom(fact):
    """Normalise a CFG fact node to (expr, polarity): strips `== True`,
    `is True`, `== False`, `is not None`... comparisons against constants
    that only express truthiness."""
    e, pol = fact.expr, fact.pol
    while True:
        if isinstance(e, ast.UnaryOp) and isinstance(e.op, ast.Not):
            e, pol = e.operand, not pol
            continue
        if isinstance(e, ast.Compare) and len(e.ops) == 1 and isinstance(e.comparators[0], ast.Constant) \
                and isinstance(e.comparators[0].value, bool):
            c = e.comparators[0].value
            if isinstance(e.ops[0], (ast.Eq, ast.Is)):
                e, pol = e.left, (pol if c else not pol)
                continue
            if isinstance(e.ops[0], (ast.NotEq, ast.IsNot)):
                e, pol = e.left, (not pol if c else pol)
                continue
        break
    return e, pol


def presence_fact(fact):
    """(expr, present) when the fact says that an object reference is there or not: `x` / `not x` / `x is None` / `x is not None`
    (for a reference that is either an object or None the four say the same thing).  (None, None) otherwise."""
    e, pol = fact_atom(fact)
    if isinstance(e, ast.Compare) and len(e.ops) == 1 and isinstance(e.comparators[0], ast.Constant) and e.comparators[0].value is None:
        if isinstance(e.ops[0], (ast.Is, ast.Eq)):
            return e.left, (not pol)
        if isinstance(e.ops[0], (ast.IsNot, ast.NotEq)):
            return e.left, pol
        return None, None
    if isinstance(e, (ast.Name, ast.Attribute)):
        return e, pol
    return None, None


def cmp_parts(e):
    """For a single comparison `a OP b` return (a, op-name, b)."""
    if isinstance(e, ast.Compare) and len(e.ops) == 1:
        return e.left, type(e.ops[0]).__name__, e.comparators[0]
    return None


def const_str(e):
    if isinstance(e, ast.Constant) and isinstance(e.value, (str, bytes)):
        return e.value
    return None


def eq_const_fact(fact, value_pred, subject_pred=None):
    """Does the fact establish  <subject> == <const>  (returns (subject, const,
    holds: bool)) ?  `!=` with reversed polarity is normalised."""
    e, pol = fact_atom(fact)
    cp = cmp_parts(e)
    if not cp:
        return None
    a, op, b = cp
    if op not in ("Eq", "NotEq"):
        return None
    if const_str(a) is not None and const_str(b) is None:
        a, b = b, a
    c = const_str(b)
    if c is None or not value_pred(c):
        return None
    if subject_pred is not None and not subject_pred(a):
        return None
    return a, c, (pol if op == "Eq" else not pol)


def calls_to(root, pred):
    """Call nodes under root (not descending into nested defs) with pred(call)."""
    return [n for n in walk_no_nested(root) if isinstance(n, ast.Call) and pred(n)]


def self_calls(func, name=None):
    selfname = func.params[0] if func.cls is not None and func.params else "self"
    return [n for n in walk_no_nested(func.node) if isinstance(n, ast.Call) and is_self_call(n, name, selfname)]


def attr_calls(root, attr):
    return [n for n in walk_no_nested(root) if isinstance(n, ast.Call) and isinstance(n.func, ast.Attribute)
            and n.func.attr == attr]


def arg(call, pos=None, kw=None, func=None):
    """Argument of a call by position or keyword (position counted without
    self)."""
    if kw is not None:
        for k in call.keywords:
            if k.arg == kw:
                return k.value
    if pos is not None and pos < len(call.args) and not any(isinstance(a, ast.Starred) for a in call.args[:pos + 1]):
        return call.args[pos]
    return None


def bound_arg(call, func, pname):
    """Expression bound to parameter pname of method `func` at this call site
    (None if default is used).  Handles positional and keyword passing for
    `self.m(...)` style calls."""
    params = list(func.params)
    if func.cls is not None and params and "staticmethod" not in getattr(func, "decorators", []):
        params = params[1:]
    if pname in params:
        i = params.index(pname)
        a = arg(call, pos=i, kw=pname)
        return a
    return arg(call, kw=pname)


class ClassGraph:
    """Call graph inside one class: self.m() edges, decorator wrappers,
    getattr(self, <fmt> % x) dispatch over methods matching the format."""

    def __init__(self, program, cls):
        self.program = program
        self.cls = cls
        self.methods = {}
        for c in reversed(program.mro(cls)):
            for n, f in c.methods.items():
                self.methods[n] = f
        self.edges = {n: set() for n in self.methods}  # caller -> callees
        self.sites = {}  # (caller, callee) -> [call nodes]
        self.dynamic = {}  # caller -> description of unresolved dispatch
        for n, f in self.methods.items():
            selfname = f.params[0] if f.params else "self"
            refs = {}
            for node in walk_no_nested(f.node):
                if isinstance(node, ast.Call):
                    if is_self_call(node, None, selfname) and node.func.attr in self.methods:
                        self._add(n, node.func.attr, node)
                    elif isinstance(node.func, ast.Name) and node.func.id == "getattr" and node.args \
                            and isinstance(node.args[0], ast.Name) and node.args[0].id == selfname:
                        targets = self._getattr_targets(node)
                        if targets is None:
                            self.dynamic[n] = norm(node)
                            targets = list(self.methods)
                        for t in targets:
                            self._add(n, t, node)
                # method references passed around: self.m without call
                elif isinstance(node, ast.Attribute) and isinstance(node.value, ast.Name) and node.value.id == selfname \
                        and node.attr in self.methods and isinstance(node.ctx, ast.Load):
                    p = getattr(node, "_parent", None)
                    if not (isinstance(p, ast.Call) and p.func is node):
                        self._add(n, node.attr, node)

    def _add(self, a, b, node):
        self.edges[a].add(b)
        self.sites.setdefault((a, b), []).append(node)

    def _getattr_targets(self, node):
        """getattr(self, "<prefix>%s<suffix>" % x) -> methods matching."""
        if len(node.args) < 2:
            return None
        a = node.args[1]
        if isinstance(a, ast.Name):
            # the name built in a local first: method_name = "_%s_authentication" % mech
            fn = node
            while fn is not None and not isinstance(fn, (ast.FunctionDef, ast.AsyncFunctionDef)):
                fn = getattr(fn, "_parent", None)
            if fn is not None:
                ds = [d.value for d in walk_no_nested(fn) if isinstance(d, ast.Assign) and len(d.targets) == 1 and isinstance(d.targets[0], ast.Name)
                      and d.targets[0].id == a.id]
                if len(ds) == 1:
                    a = ds[0]
        if isinstance(a, ast.Constant) and isinstance(a.value, str):
            return [a.value] if a.value in self.methods else []
        fmt = None
        if isinstance(a, ast.BinOp) and isinstance(a.op, ast.Mod) and isinstance(a.left, ast.Constant) \
                and isinstance(a.left.value, str):
            fmt = a.left.value
        elif isinstance(a, ast.Call) and isinstance(a.func, ast.Attribute) and a.func.attr == "format" \
                and isinstance(a.func.value, ast.Constant) and isinstance(a.func.value.value, str):
            fmt = a.func.value.value.replace("{}", "%s")
        elif isinstance(a, ast.JoinedStr):
            fmt = "".join(p.value if isinstance(p, ast.Constant) else "%s" for p in a.values)
        if fmt is None or fmt.count("%s") != 1:
            return None
        pre, suf = fmt.split("%s")
        if not pre and not suf:
            return None
        return [m for m in self.methods if m.startswith(pre) and m.endswith(suf) and len(m) > len(pre) + len(suf)]

    def callers(self, name):
        return {a for a, bs in self.edges.items() if name in bs}

    def reach_from(self, starts, blocked=()):
        """Methods reachable from `starts` without entering a blocked one."""
        seen = set()
        todo = [s for s in starts if s not in blocked]
        seen.update(todo)
        while todo:
            x = todo.pop()
            for y in self.edges.get(x, ()):
                if y in blocked or y in seen:
                    continue
                seen.add(y)
                todo.append(y)
        return seen

    def reaches(self, target):
        """All methods from which target is reachable (including itself)."""
        seen = {target}
        todo = [target]
        while todo:
            x = todo.pop()
            for c in self.callers(x):
                if c not in seen:
                    seen.add(c)
                    todo.append(c)
        return seen


def decorator_names(func):
    out = []
    for d in func.node.decorator_list:
        if isinstance(d, ast.Call):
            d = d.func
        if isinstance(d, ast.Name):
            out.append(d.id)
        elif isinstance(d, ast.Attribute):
            out.append(d.attr)
    return out


def attr_writes(program, attrname, classes=None, modules=None):
    """Every store/aug-store/in-place mutation of  <something>.<attrname>
    in the program: list of (func, node, kind, target_text)."""
    MUT = {"append", "extend", "insert", "remove", "pop", "clear", "sort", "reverse", "update", "add", "discard",
           "setdefault", "popitem", "__setitem__", "__delitem__"}
    out = []
    for f in program.all_funcs():
        if modules and f.module.name not in modules:
            continue
        cname = f.cls.name if f.cls else None
        for n in walk_no_nested(f.node):
            if isinstance(n, ast.Attribute) and isinstance(n.ctx, (ast.Store, ast.Del)) \
                    and mangle(cname, n.attr) == attrname:
                p = getattr(n, "_parent", None)
                kind = "augassign" if isinstance(p, ast.AugAssign) else "assign"
                out.append((f, n, kind, norm(n)))
            elif isinstance(n, ast.Subscript) and isinstance(n.ctx, (ast.Store, ast.Del)) \
                    and isinstance(n.value, ast.Attribute) and mangle(cname, n.value.attr) == attrname:
                out.append((f, n, "setitem", norm(n)))
            elif isinstance(n, ast.Call) and isinstance(n.func, ast.Attribute) and n.func.attr in MUT \
                    and isinstance(n.func.value, ast.Attribute) and mangle(cname, n.func.value.attr) == attrname:
                out.append((f, n, "mutator:" + n.func.attr, norm(n.func.value)))
    return out


def attr_reads(program, attrname, modules=None):
    out = []
    for f in program.all_funcs():
        if modules and f.module.name not in modules:
            continue
        cname = f.cls.name if f.cls else None
        for n in walk_no_nested(f.node):
            if isinstance(n, ast.Attribute) and isinstance(n.ctx, ast.Load) and mangle(cname, n.attr) == attrname:
                out.append((f, n))
    return out


def evaluator_for(program, func):
    return Evaluator(program, func.module, func.cls)


def const_value(program, func, expr):
    return evaluator_for(program, func).eval(expr)


def returns_of(func):
    return [n for n in walk_no_nested(func.node) if isinstance(n, ast.Return)]


def raises_of(func):
    return [n for n in walk_no_nested(func.node) if isinstance(n, ast.Raise)]


def raise_name(r):
    if r.exc is None:
        return None
    e = r.exc.func if isinstance(r.exc, ast.Call) else r.exc
    if isinstance(e, ast.Name):
        return e.id
    if isinstance(e, ast.Attribute):
        return e.attr
    return None


def contains(root, node):
    for n in ast.walk(root):
        if n is node:
            return True
    return False


def local_defs(func, name):
    """Assignments `name = expr` (simple) inside func."""
    out = []
    for n in walk_no_nested(func.node):
        if isinstance(n, ast.Assign):
            for t in n.targets:
                if isinstance(t, ast.Name) and t.id == name:
                    out.append(n)
        elif isinstance(n, ast.AnnAssign) and isinstance(n.target, ast.Name) and n.target.id == name and n.value:
            out.append(n)
    return out


def single_def_value(func, name):
    ds = local_defs(func, name)
    if len(ds) == 1:
        return ds[0].value
    return None


def establishes_empty(fact, var):
    """Does this branch fact establish that local `var` (bytes/str/list) is
    empty?  Recognised: not var / not len(var) / len(var) == 0 / len(var) < 1 /
    var == b"" and their negated-polarity duals."""
    e, pol = fact_atom(fact)

    def is_var(x):
        return isinstance(x, ast.Name) and x.id == var

    def is_len(x):
        return isinstance(x, ast.Call) and isinstance(x.func, ast.Name) and x.func.id == "len" and len(x.args) == 1 \
            and is_var(x.args[0])

    if is_var(e) or is_len(e):
        return pol is False
    cp = cmp_parts(e)
    if cp:
        a, op, b = cp
        if is_len(a) and isinstance(b, ast.Constant) and isinstance(b.value, int):
            k = b.value
            if (op == "Eq" and k == 0) or (op == "Lt" and k == 1) or (op == "LtE" and k == 0):
                return pol is True
            if (op == "NotEq" and k == 0) or (op == "Gt" and k == 0) or (op == "GtE" and k == 1):
                return pol is False
        if is_var(a) and isinstance(b, ast.Constant) and b.value in (b"", ""):
            if op == "Eq":
                return pol is True
            if op == "NotEq":
                return pol is False
    return False


def module_resolver(program, module):
    """name -> constant value of a module-level binding (for the finite-domain
    interpreter); KeyError when not statically evaluable."""
    ev = Evaluator(program, module)

    def resolve(name):
        if name in module.assigns and len(module.assign_nodes.get(name, [])) == 1:
            v = ev.lookup(name)
            if v is not TOP:
                return v
        raise KeyError(name)
    return resolve


def fact_call(fact):
    """The call whose outcome this fact is about: the tested expression itself
    (`if not self.put(...)`) or the call a tested flag was bound to just before
    (`ok = self.put(...); if not ok`).  Returns (call, polarity) or (None, None)."""
    e, pol = fact_atom(fact)
    if isinstance(e, ast.Call):
        return e, pol
    if isinstance(e, ast.Name) and isinstance(getattr(fact, "info", None), ast.Call):
        return fact.info, pol
    return None, None
