"""Regex analysis: stdlib regex *parser* (re._parser) -> NFA with one-symbol
look-ahead guards -> lazily determinised automata over 256 bytes + EOF.

Decides language equality / inclusion (with a shortest witness), whether two
patterns select the same token extent under Python's backtracking priority
(for the sub-class of patterns where that selection is provably "longest
match" or "shortest match"), overlap of two rules at one position, widths,
byte sets, nullable capture groups and polynomial-backtracking shapes.

Nothing of the analysed repository is executed: the only input is a pattern
constant extracted from its syntax tree.
"""
import re
from collections import deque

try:
    from re import _parser as sre_parse, _constants as C
except ImportError:  # pragma: no cover  (python < 3.11)
    import sre_parse
    import sre_constants as C

EOF = 256
BYTES = (1 << 256) - 1
ALLSYM = (1 << 257) - 1
MAXREPEAT = C.MAXREPEAT


class Undecidable(Exception):
    """Pattern uses a construct outside the exactly-supported subset."""


def _mask(chars):
    m = 0
    for c in chars:
        m |= 1 << c
    return m


_DIGIT = _mask(range(48, 58))
_WORD = _mask(list(range(48, 58)) + list(range(65, 91)) + list(range(97, 123)) + [95])
_SPACE = _mask([9, 10, 11, 12, 13, 32])
_CAT = {
    C.CATEGORY_DIGIT: _DIGIT, C.CATEGORY_NOT_DIGIT: BYTES & ~_DIGIT,
    C.CATEGORY_WORD: _WORD, C.CATEGORY_NOT_WORD: BYTES & ~_WORD,
    C.CATEGORY_SPACE: _SPACE, C.CATEGORY_NOT_SPACE: BYTES & ~_SPACE,
}


def _fold(mask):
    """IGNORECASE on ASCII letters."""
    out = mask
    for c in range(65, 91):
        if mask >> c & 1 or mask >> (c + 32) & 1:
            out |= (1 << c) | (1 << (c + 32))
    return out


def mask_bytes(mask):
    return [c for c in range(256) if mask >> c & 1]


def show_mask(mask):
    bs = mask_bytes(mask & BYTES)
    if len(bs) > 128:
        return "not " + show_mask(BYTES & ~mask)
    out = []
    i = 0
    while i < len(bs):
        j = i
        while j + 1 < len(bs) and bs[j + 1] == bs[j] + 1:
            j += 1
        a, b = bs[i], bs[j]
        out.append(repr(bytes([a]))[2:-1] if a == b else "%s-%s" % (repr(bytes([a]))[2:-1], repr(bytes([b]))[2:-1]))
        i = j + 1
    return "[" + "".join(out) + "]" + ("+EOF" if mask >> EOF & 1 else "")


class Pattern:
    def __init__(self, pattern, flags=0, name=None):
        self.name = name
        self.flags = flags
        if isinstance(pattern, str):
            try:
                pattern = pattern.encode("latin-1")
            except UnicodeEncodeError:
                raise Undecidable("non latin-1 str pattern")
            self.was_str = True
        else:
            self.was_str = False
        self.pattern = pattern
        self.tree = sre_parse.parse(pattern, flags & ~re.UNICODE)
        self.ngroups = self.tree.state.groups - 1
        self.icase = bool(flags & re.IGNORECASE)
        self.multiline = bool(flags & re.MULTILINE)
        self.dotall = bool(flags & re.DOTALL)
        self.has_lazy = False
        self.has_anchor = False
        # NFA
        self.eps = []  # state -> [(target, guard or None)]
        self.edges = []  # state -> [(mask, target)]
        self.start = self._st()
        self.accept = self._st()
        end = self._seq(self.tree, self.start)
        self._eps(end, self.accept)
        self._classes = None

    # ---- NFA construction ---------------------------------------------------
    def _st(self):
        self.eps.append([])
        self.edges.append([])
        return len(self.eps) - 1

    def _eps(self, a, b, guard=None):
        self.eps[a].append((b, guard))

    def _edge(self, a, mask, b):
        if self.icase:
            mask = _fold(mask)
        self.edges[a].append((mask & BYTES, b))

    def _in_mask(self, items):
        m = 0
        neg = False
        for op, av in items:
            if op is C.NEGATE:
                neg = True
            elif op is C.LITERAL:
                if av > 255:
                    raise Undecidable("non-byte literal")
                m |= 1 << av
            elif op is C.RANGE:
                lo, hi = av
                m |= _mask(range(lo, min(hi, 255) + 1))
            elif op is C.CATEGORY:
                if av not in _CAT:
                    raise Undecidable("category %s" % av)
                m |= _CAT[av]
            else:
                raise Undecidable("class item %s" % op)
        if self.icase:
            m = _fold(m)
        return (BYTES & ~m) if neg else m

    def item_mask(self, op, av):
        """Byte set of a single-character item, or None."""
        if op is C.LITERAL:
            if av > 255:
                raise Undecidable("non-byte literal")
            return 1 << av
        if op is C.NOT_LITERAL:
            return BYTES & ~(1 << av)
        if op is C.ANY:
            return BYTES if self.dotall else BYTES & ~(1 << 10)
        if op is C.IN:
            return self._in_mask(av)
        return None

    def _seq(self, sub, cur):
        for op, av in sub:
            cur = self._item(op, av, cur)
        return cur

    def _item(self, op, av, cur):
        m = self.item_mask(op, av)
        if m is not None:
            nxt = self._st()
            self._edge(cur, m, nxt)
            return nxt
        if op is C.SUBPATTERN:
            group, add, dele, p = av
            if add or dele:
                raise Undecidable("inline flags")
            return self._seq(p, cur)
        if op is C.BRANCH:
            _, alts = av
            end = self._st()
            for a in alts:
                s = self._st()
                self._eps(cur, s)
                e = self._seq(a, s)
                self._eps(e, end)
            return end
        if op in (C.MAX_REPEAT, C.MIN_REPEAT):
            lo, hi, p = av
            if op is C.MIN_REPEAT:
                self.has_lazy = True
            if lo > 64 or (hi is not MAXREPEAT and hi > 64):
                raise Undecidable("large counted repeat")
            for _ in range(lo):
                cur = self._seq(p, cur)
            if hi is MAXREPEAT:
                loop = self._st()
                self._eps(cur, loop)
                e = self._seq(p, loop)
                self._eps(e, loop)
                out = self._st()
                self._eps(loop, out)
                return out
            end = self._st()
            self._eps(cur, end)
            for _ in range(hi - lo):
                cur = self._seq(p, cur)
                self._eps(cur, end)
            return end
        if op is C.AT:
            self.has_anchor = True
            if av is C.AT_END and self.multiline:
                nxt = self._st()
                self._eps(cur, nxt, (1 << 10) | (1 << EOF))
                return nxt
            if av is C.AT_END_STRING:
                nxt = self._st()
                self._eps(cur, nxt, 1 << EOF)
                return nxt
            raise Undecidable("anchor %s" % av)
        raise Undecidable("construct %s" % op)

    # ---- determinisation ----------------------------------------------------
    FINAL = -1

    def _closure(self, configs):
        """configs: iterable of (state, guard) ; guard is a 257-bit mask."""
        seen = {}
        todo = list(configs)
        while todo:
            s, g = todo.pop()
            old = seen.get(s, 0)
            if g | old == old:
                continue
            seen[s] = old | g
            g = seen[s]
            for t, h in self.eps[s]:
                ng = g if h is None else g & h
                if ng:
                    todo.append((t, ng))
        return frozenset(seen.items())

    def initial(self):
        return self._closure([(self.start, ALLSYM)])

    def step(self, S, sym):
        """S: frozenset of (state, guardmask) possibly with (FINAL, ..)."""
        bit = 1 << sym
        nxt = []
        final = False
        for s, g in S:
            if s == self.FINAL or not (g & bit):
                continue
            if s == self.accept:
                final = True
            if sym != EOF:
                for m, t in self.edges[s]:
                    if m & bit:
                        nxt.append((t, ALLSYM))
        out = self._closure(nxt)
        if final:
            out = out | {(self.FINAL, ALLSYM)}
        return out

    @staticmethod
    def is_final(S):
        return any(s == Pattern.FINAL for s, _ in S)

    def has_accept(self, S):
        """Plain language membership of the word read so far (guards that
        are still pending are ignored)."""
        return any(s == self.accept for s, _ in S)

    def masks(self):
        ms = set()
        for es in self.edges:
            for m, _ in es:
                ms.add(m)
        for es in self.eps:
            for _, g in es:
                if g is not None:
                    ms.add(g)
        return ms


def symbol_classes(patterns):
    """Representatives of the coarsest partition of the 257 symbols that all
    transition masks of the given patterns respect."""
    parts = [ALLSYM]
    for p in patterns:
        for m in p.masks():
            new = []
            for q in parts:
                a, b = q & m, q & ~m
                if a:
                    new.append(a)
                if b:
                    new.append(b)
            parts = new
    reps = []
    for q in parts:
        if q == 1 << EOF:
            reps.append(EOF)
            continue
        if q >> EOF & 1:
            reps.append(EOF)
            q &= BYTES
            if not q:
                continue
        # prefer a printable representative
        bs = mask_bytes(q)
        pr = [c for c in bs if 33 <= c < 127]
        reps.append(pr[0] if pr else bs[0])
    return sorted(set(reps), key=lambda c: (c == EOF, not (33 <= c < 127), c))


def _word(syms):
    return bytes(c for c in syms if c != EOF)


# ---- language queries ---------------------------------------------------------

def language_diff(p1, p2, mode="equal"):
    """Compare plain languages (EOF/anchors at the end are honoured through
    the look-ahead construction: a word counts as accepted when w.c is in L'
    for some c; here we compare L' itself, restricted to c ranging over all
    symbols).  mode 'equal' or 'subset' (L'(p1) <= L'(p2)).
    Returns None if the relation holds, else (witness bytes, lookahead, in1, in2).
    """
    reps = symbol_classes([p1, p2])
    start = (p1.initial(), p2.initial())
    parent = {start: None}
    dq = deque([start])
    while dq:
        cur = dq.popleft()
        a, b = cur
        for c in reps:
            na, nb = p1.step(a, c), p2.step(b, c)
            f1, f2 = Pattern.is_final(na), Pattern.is_final(nb)
            bad = (f1 != f2) if mode == "equal" else (f1 and not f2)
            if bad:
                syms = [c]
                x = cur
                while parent[x] is not None:
                    x, s = parent[x]
                    syms.append(s)
                    # parent maps state -> (prev, sym)
                syms = list(reversed(syms))
                return (_word(syms[:-1]), syms[-1], f1, f2)
            if c == EOF:
                continue
            na_ = frozenset(x for x in na if x[0] != Pattern.FINAL)
            nb_ = frozenset(x for x in nb if x[0] != Pattern.FINAL)
            st = (na_, nb_)
            if st not in parent and (na_ or nb_):
                parent[st] = (cur, c)
                dq.append(st)
    return None


def _strip(S):
    return frozenset(x for x in S if x[0] != Pattern.FINAL)


def selection_diff(p1, d1, p2, d2):
    """Do p1 (selection discipline d1) and p2 (d2) pick the same token extent
    on every input?  Disciplines: 'longest' / 'shortest'.
    Returns None if yes, else a witness (input bytes, description)."""
    reps = symbol_classes([p1, p2])
    # state: (S1, S2, locked1, locked2, found1, found2, eq)
    start = (p1.initial(), p2.initial(), False, False, False, False, True)
    parent = {start: None}
    dq = deque([start])

    def upd(st, c):
        S1, S2, l1, l2, f1, f2, eq = st
        n1, n2 = p1.step(S1, c), p2.step(S2, c)
        a1, a2 = Pattern.is_final(n1), Pattern.is_final(n2)
        new1 = a1 and not l1
        new2 = a2 and not l2
        if new1 and new2:
            eq, f1, f2 = True, True, True
        elif new1:
            f1, eq = True, False
        elif new2:
            f2, eq = True, False
        if new1 and d1 == "shortest":
            l1 = True
        if new2 and d2 == "shortest":
            l2 = True
        return (_strip(n1), _strip(n2), l1, l2, f1, f2, eq)

    def witness(st, last):
        syms = [last]
        x = st
        while parent[x] is not None:
            x, s = parent[x]
            syms.append(s)
        return _word(reversed(syms))

    while dq:
        cur = dq.popleft()
        end = upd(cur, EOF)
        _, _, _, _, f1, f2, eq = end
        if f1 != f2 or (f1 and f2 and not eq):
            w = witness(cur, EOF)
            return (w, "first pattern %s, second pattern %s" % (
                "selects a token" if f1 else "has no match", "selects a token" if f2 else "has no match")
                if f1 != f2 else "token extents differ")
        for c in reps:
            if c == EOF:
                continue
            nx = upd(cur, c)
            if nx not in parent:
                # prune: both dead and nothing can change any more
                if not nx[0] and not nx[1]:
                    S1, S2, l1, l2, f1, f2, eq = nx
                    if f1 != f2 or (f1 and f2 and not eq):
                        parent[nx] = (cur, c)
                        return (witness(nx, EOF), "token extents differ")
                    continue
                parent[nx] = (cur, c)
                dq.append(nx)
    return None


def overlap(p1, p2):
    """Is there an input on which both patterns have a candidate match at
    position 0?  Returns a witness or None."""
    reps = symbol_classes([p1, p2])
    start = (p1.initial(), p2.initial(), False, False)
    parent = {start: None}
    dq = deque([start])
    while dq:
        cur = dq.popleft()
        S1, S2, f1, f2 = cur
        for c in reps:
            n1, n2 = p1.step(S1, c), p2.step(S2, c)
            g1 = f1 or Pattern.is_final(n1)
            g2 = f2 or Pattern.is_final(n2)
            nx = (_strip(n1), _strip(n2), g1, g2)
            if g1 and g2:
                syms = [c]
                x = cur
                while parent[x] is not None:
                    x, s = parent[x]
                    syms.append(s)
                return _word(reversed(syms))
            if c == EOF:
                continue
            if nx not in parent and ((nx[0] or g1) and (nx[1] or g2)):
                parent[nx] = (cur, c)
                dq.append(nx)
    return None


def accepts_empty(p):
    S = p.initial()
    return p.has_accept(S)


def byteset(p):
    """Union of bytes that can occur in a match."""
    m = 0
    for es in p.edges:
        for mk, _ in es:
            m |= mk
    return m


def first_bytes(p):
    S = p.initial()
    m = 0
    for s, g in S:
        for mk, _ in p.edges[s]:
            m |= mk & g
    return m


def widths(p):
    lo, hi = p.tree.getwidth()
    return lo, (None if hi >= MAXREPEAT else hi)


# ---- structural facts -------------------------------------------------------

def nullable_groups(p):
    """Capture groups that may not participate in a successful match."""
    out = set()

    def groups_in(sub):
        gs = set()
        for op, av in sub:
            if op is C.SUBPATTERN:
                if av[0] is not None:
                    gs.add(av[0])
                gs |= groups_in(av[3])
            elif op is C.BRANCH:
                for a in av[1]:
                    gs |= groups_in(a)
            elif op in (C.MAX_REPEAT, C.MIN_REPEAT):
                gs |= groups_in(av[2])
        return gs

    def rec(sub):
        for op, av in sub:
            if op is C.SUBPATTERN:
                rec(av[3])
            elif op is C.BRANCH:
                alts = av[1]
                per = [groups_in(a) for a in alts]
                allg = set().union(*per) if per else set()
                for g in allg:
                    if not all(g in x for x in per):
                        out.add(g)
                for a in alts:
                    rec(a)
            elif op in (C.MAX_REPEAT, C.MIN_REPEAT):
                lo, hi, sp = av
                if lo == 0:
                    out.update(groups_in(sp))
                rec(sp)

    rec(p.tree)
    return out


def _follow_determinism(p):
    """Glushkov-style determinism on the Thompson NFA: from the start and
    from the target of every byte edge, the byte edges reachable through
    epsilon moves have pairwise disjoint byte sets."""
    def eps_reach(s):
        seen = {s}
        todo = [s]
        while todo:
            x = todo.pop()
            for t, _ in p.eps[x]:
                if t not in seen:
                    seen.add(t)
                    todo.append(t)
        return seen

    origins = [p.start]
    for es in p.edges:
        for _, t in es:
            origins.append(t)
    for o in set(origins):
        edges = []
        for s in eps_reach(o):
            for e in p.edges[s]:
                edges.append((s, e))
        for i in range(len(edges)):
            for j in range(i + 1, len(edges)):
                if edges[i][1][0] & edges[j][1][0]:
                    return False
    return True


def _only_greedy(sub):
    for op, av in sub:
        if op is C.MIN_REPEAT:
            return False
        if op in (C.POSSESSIVE_REPEAT, C.ATOMIC_GROUP, C.GROUPREF, C.ASSERT, C.ASSERT_NOT, C.GROUPREF_EXISTS):
            return False
        if op is C.SUBPATTERN and not _only_greedy(av[3]):
            return False
        if op is C.BRANCH and not all(_only_greedy(a) for a in av[1]):
            return False
        if op is C.MAX_REPEAT and not _only_greedy(av[2]):
            return False
    return True


def discipline(p):
    """'longest' : greedy-only and 1-unambiguous  => Python selects the longest
                   candidate;
       'shortest': literal prefix, one top-level lazy  X*?  over a single
                   character class, deterministic prefix-free rest => Python
                   selects the shortest candidate;
       None      : not decidable by this analysis."""
    if _only_greedy(p.tree):
        return "longest" if _follow_determinism(p) else None
    items = list(p.tree)
    lazy = [i for i, (op, av) in enumerate(items) if op is C.MIN_REPEAT]
    if len(lazy) != 1:
        return None
    i = lazy[0]
    lo, hi, body = items[i][1]
    if lo != 0 or hi is not MAXREPEAT or len(body) != 1 or p.item_mask(*body[0]) is None:
        return None
    if any(p.item_mask(op, av) is None or bin(p.item_mask(op, av)).count("1") != 1 for op, av in items[:i]):
        return None
    rest = items[i + 1:]
    # the rest must be greedy-only, deterministic and have a prefix-free language
    try:
        rp = _subpattern(p, rest)
    except Undecidable:
        return None
    if not _only_greedy(rest) or not _follow_determinism(rp):
        return None
    if not _prefix_free(rp):
        return None
    return "shortest"


def _subpattern(p, items):
    q = Pattern.__new__(Pattern)
    q.name = None
    q.flags = p.flags
    q.pattern = b"<sub>"
    q.was_str = False
    q.icase, q.multiline, q.dotall = p.icase, p.multiline, p.dotall
    q.has_lazy = q.has_anchor = False
    q.eps, q.edges = [], []
    q.tree = items
    q.ngroups = 0
    q.start = q._st()
    q.accept = q._st()
    end = q._seq(items, q.start)
    q._eps(end, q.accept)
    return q


def _prefix_free(p):
    """With one-symbol look-ahead: on no input are there two candidate matches
    w1 < w2 (w.c in L' where c is the symbol that follows w in the input)."""
    reps = symbol_classes([p])
    start = (p.initial(), False)
    seen = {start}
    dq = deque([start])
    while dq:
        S, after = dq.popleft()
        for c in reps:
            n = p.step(S, c)
            fin = Pattern.is_final(n)
            if fin and after:
                return False
            if c == EOF:
                continue
            st = (_strip(n), after or fin)
            if st[0] and st not in seen:
                seen.add(st)
                dq.append(st)
    return True


def polynomial_backtracking(p):
    """Shapes that make the backtracking matcher super-linear:
    (a) inside one sequence, two unbounded repeats whose byte sets intersect,
        separated only by nullable items, and followed by something that can
        fail;  (b) an unbounded repeat whose body contains an unbounded repeat
        over an intersecting byte set (exponential).
    Returns a list of human-readable findings."""
    found = []

    def sub_mask(sub):
        m = 0
        for op, av in sub:
            im = p.item_mask(op, av)
            if im is not None:
                m |= im
            elif op is C.SUBPATTERN:
                m |= sub_mask(av[3])
            elif op is C.BRANCH:
                for a in av[1]:
                    m |= sub_mask(a)
            elif op in (C.MAX_REPEAT, C.MIN_REPEAT):
                m |= sub_mask(av[2])
        return m

    def nullable(op, av):
        if op in (C.MAX_REPEAT, C.MIN_REPEAT):
            return av[0] == 0 or all(nullable(o, a) for o, a in av[2])
        if op is C.SUBPATTERN:
            return all(nullable(o, a) for o, a in av[3])
        if op is C.BRANCH:
            return any(all(nullable(o, a) for o, a in alt) for alt in av[1])
        if op is C.AT:
            return True
        return False

    def can_fail(items):
        for op, av in items:
            if op is C.AT or not nullable(op, av):
                return True
        return False

    def first_of(items):
        """bytes a match of the sequence can start with (the items up to and including the first one that cannot be empty)"""
        m = 0
        for op, av in items:
            im = p.item_mask(op, av)
            if im is not None:
                m |= im
            elif op is C.SUBPATTERN:
                m |= first_of(av[3])
            elif op is C.BRANCH:
                for a in av[1]:
                    m |= first_of(a)
            elif op in (C.MAX_REPEAT, C.MIN_REPEAT):
                m |= first_of(av[2])
            if not nullable(op, av):
                break
        return m

    def rec(sub, inside_unbounded):
        # The splits of a string between a repeat and what follows it are ambiguous only where a byte can both continue the repeat and
        # START what follows: the repeat's byte set against the FIRST set of the following items (for the last items of a repeated
        # body also against the first set of the next iteration).  `"[^"\\]*(?:\\.[^"\\]*)*"` (the unrolled loop) has no such byte.
        items = list(sub)
        for i, (op, av) in enumerate(items):
            if op in (C.MAX_REPEAT, C.MIN_REPEAT) and av[1] is MAXREPEAT:
                m1 = sub_mask(av[2])
                rest = items[i + 1:]
                tail_nullable = all(nullable(o_, a_) for o_, a_ in rest)
                if inside_unbounded is not None:
                    nxt = first_of(rest) | (inside_unbounded[0] if tail_nullable else 0)
                    if m1 & nxt and (tail_nullable or any(o_ in (C.MAX_REPEAT, C.MIN_REPEAT) for o_, _a in rest[:1]) or m1 & first_of(rest)):
                        found.append("nested unbounded repeats over intersecting bytes %s" % show_mask(m1 & nxt))
                if all(nullable(o_, a_) for o_, a_ in av[2]):
                    found.append("an unbounded repeat of something that can be empty")
                for j in range(i + 1, len(items)):
                    op2, av2 = items[j]
                    if op2 in (C.MAX_REPEAT, C.MIN_REPEAT) and av2[1] is MAXREPEAT:
                        m2 = first_of(av2[2])
                        if m1 & m2 and can_fail(items[j + 1:]):
                            found.append("adjacent unbounded repeats over intersecting bytes %s followed by a part that can fail"
                                         % show_mask(m1 & m2))
                    if not nullable(op2, av2):
                        break
                rec(av[2], (first_of(av[2]),))
            elif op in (C.MAX_REPEAT, C.MIN_REPEAT):
                rec(av[2], inside_unbounded)
            elif op is C.SUBPATTERN:
                rec(av[3], inside_unbounded)
            elif op is C.BRANCH:
                for a in av[1]:
                    rec(a, inside_unbounded)

    rec(p.tree, None)
    return found


def uses_unsupported(pattern, flags=0):
    """Names of constructs that make a lexer rule unfit for lastgroup-based
    dispatch: named groups, back-references, look-around, inline flags."""
    t = sre_parse.parse(pattern, flags)
    out = []
    if t.state.groupdict:
        out.append("named group")

    def rec(sub):
        for op, av in sub:
            if op in (C.GROUPREF, C.GROUPREF_EXISTS):
                out.append("back-reference")
            elif op in (C.ASSERT, C.ASSERT_NOT):
                out.append("look-around")
            elif op is C.SUBPATTERN:
                if av[1] or av[2]:
                    out.append("inline flags")
                rec(av[3])
            elif op is C.BRANCH:
                for a in av[1]:
                    rec(a)
            elif op in (C.MAX_REPEAT, C.MIN_REPEAT):
                rec(av[2])
            elif op in (getattr(C, "POSSESSIVE_REPEAT", None), getattr(C, "ATOMIC_GROUP", None)):
                out.append("possessive/atomic")
    rec(t)
    return out


def has_anchor(pattern, flags=0, kind="end"):
    t = sre_parse.parse(pattern, flags)
    hit = []

    def rec(sub):
        for op, av in sub:
            if op is C.AT:
                if kind == "end" and av in (C.AT_END,):
                    hit.append(av)
                elif kind == "begin" and av in (C.AT_BEGINNING,):
                    hit.append(av)
            elif op is C.SUBPATTERN:
                rec(av[3])
            elif op is C.BRANCH:
                for a in av[1]:
                    rec(a)
            elif op in (C.MAX_REPEAT, C.MIN_REPEAT):
                rec(av[2])
    rec(t)
    return bool(hit)
