"""Program model of /repo/sievelib: modules, classes (MRO, name mangling),
functions, module/class level bindings, import aliases.

Nothing here imports or runs the analysed code: everything is read from the
syntax trees of the source files as they are on disk at the time of the call.
"""
import ast
import os
import warnings

PKG = "sievelib"
MODULES = ("parser", "commands", "factory", "managesieve", "digest_md5", "tools")


class AnalysisError(Exception):
    """The analysis cannot give a verdict (vanished anchor, unknown shape)."""

    def __init__(self, rule, why):
        super().__init__("%s: %s" % (rule, why))
        self.rule = rule
        self.why = why


def mangle(clsname, attr):
    """Python private-name mangling of attr inside class clsname."""
    if clsname and attr.startswith("__") and not attr.endswith("__"):
        return "_%s%s" % (clsname.lstrip("_"), attr)
    return attr


class Func:
    def __init__(self, node, module, cls=None, outer=None):
        self.node = node
        self.module = module
        self.cls = cls
        self.outer = outer
        self.name = node.name
        if cls is not None:
            self.qualname = "%s.%s" % (cls.name, node.name)
        elif outer is not None:
            self.qualname = "%s.<locals>.%s" % (outer.qualname, node.name)
        else:
            self.qualname = "%s.%s" % (module.name, node.name)
        self.params = [a.arg for a in node.args.posonlyargs + node.args.args]
        self.kwonly = [a.arg for a in node.args.kwonlyargs]
        self.decorators = [ast.unparse(d) for d in node.decorator_list]

    @property
    def file(self):
        return self.module.relpath

    def defaults(self):
        """param name -> default expression (ast) for positional params."""
        a = self.node.args
        pos = a.posonlyargs + a.args
        out = {}
        for p, d in zip(pos[len(pos) - len(a.defaults):], a.defaults):
            out[p.arg] = d
        for p, d in zip(a.kwonlyargs, a.kw_defaults):
            if d is not None:
                out[p.arg] = d
        return out

    def __repr__(self):
        return "<Func %s>" % self.qualname


class ClassInfo:
    def __init__(self, node, module):
        self.node = node
        self.module = module
        self.name = node.name
        self.base_names = []
        for b in node.bases:
            if isinstance(b, ast.Name):
                self.base_names.append(b.id)
            elif isinstance(b, ast.Attribute):
                self.base_names.append(b.attr)
            else:
                self.base_names.append(ast.unparse(b))
        self.methods = {}
        self.attrs = {}  # class-level name -> value expr (last binding)
        self.attr_nodes = {}  # class-level name -> list of binding statements
        for st in node.body:
            if isinstance(st, (ast.FunctionDef, ast.AsyncFunctionDef)):
                self.methods[st.name] = Func(st, module, cls=self)
            elif isinstance(st, ast.Assign):
                for t in st.targets:
                    if isinstance(t, ast.Name):
                        self.attrs[t.id] = st.value
                        self.attr_nodes.setdefault(t.id, []).append(st)
            elif isinstance(st, ast.AnnAssign) and isinstance(st.target, ast.Name):
                if st.value is not None:
                    self.attrs[st.target.id] = st.value
                self.attr_nodes.setdefault(st.target.id, []).append(st)

    def __repr__(self):
        return "<Class %s>" % self.name


class Module:
    def __init__(self, name, path, relpath, src):
        self.name = name
        self.path = path
        self.relpath = relpath
        self.src = src
        with warnings.catch_warnings():
            warnings.simplefilter("ignore")
            self.tree = ast.parse(src, filename=path)
        for parent in ast.walk(self.tree):
            for ch in ast.iter_child_nodes(parent):
                ch._parent = parent
        self.tree._parent = None
        self.classes = {}
        self.funcs = {}
        self.assigns = {}  # module-level name -> value expr (last binding)
        self.assign_nodes = {}
        self.imports = {}  # local alias -> ("module", modname) | ("name", modname, name)
        for st in self.tree.body:
            if isinstance(st, ast.ClassDef):
                self.classes[st.name] = ClassInfo(st, self)
            elif isinstance(st, (ast.FunctionDef, ast.AsyncFunctionDef)):
                self.funcs[st.name] = Func(st, self)
            elif isinstance(st, ast.Assign):
                for t in st.targets:
                    if isinstance(t, ast.Name):
                        self.assigns[t.id] = st.value
                        self.assign_nodes.setdefault(t.id, []).append(st)
            elif isinstance(st, ast.AnnAssign) and isinstance(st.target, ast.Name):
                if st.value is not None:
                    self.assigns[st.target.id] = st.value
                self.assign_nodes.setdefault(st.target.id, []).append(st)
            elif isinstance(st, ast.Import):
                for al in st.names:
                    self.imports[al.asname or al.name.split(".")[0]] = ("module", al.name)
            elif isinstance(st, ast.ImportFrom):
                mod = st.module or ""
                for al in st.names:
                    if al.name == "*":
                        raise AnalysisError("model", "star import in %s" % relpath)
                    full = mod
                    if st.level:
                        full = PKG + ("." + mod if mod else "")
                    self.imports[al.asname or al.name] = ("name", full, al.name)

    def all_funcs(self):
        """Every function/method/nested function of the module."""
        out = []

        def rec(f):
            out.append(f)
            for n in ast.walk(f.node):
                if n is f.node:
                    continue
                if isinstance(n, (ast.FunctionDef, ast.AsyncFunctionDef)) and enclosing_func(n) is f.node:
                    rec(Func(n, self, outer=f))

        for f in self.funcs.values():
            rec(f)
        for c in self.classes.values():
            for f in c.methods.values():
                rec(f)
        return out


def enclosing_func(node):
    p = getattr(node, "_parent", None)
    while p is not None and not isinstance(p, (ast.FunctionDef, ast.AsyncFunctionDef, ast.Lambda)):
        p = getattr(p, "_parent", None)
    return p


def enclosing_class(node):
    p = getattr(node, "_parent", None)
    while p is not None and not isinstance(p, ast.ClassDef):
        p = getattr(p, "_parent", None)
    return p


FORBIDDEN = (ast.Match, ast.AsyncFunctionDef, ast.AsyncFor, ast.AsyncWith, ast.Await)


class Program:
    def __init__(self, repo="/repo"):
        self.repo = repo
        self.modules = {}
        pkgdir = os.path.join(repo, PKG)
        if not os.path.isdir(pkgdir):
            raise AnalysisError("model", "no %s package under %s" % (PKG, repo))
        for fn in sorted(os.listdir(pkgdir)):
            if not fn.endswith(".py") or fn == "__init__.py":
                continue
            name = fn[:-3]
            path = os.path.join(pkgdir, fn)
            with open(path, encoding="utf-8") as fp:
                src = fp.read()
            self.modules[name] = Module(name, path, "%s/%s" % (PKG, fn), src)
        for need in ("parser", "commands", "factory", "managesieve"):
            if need not in self.modules:
                raise AnalysisError("model", "module %s.py missing" % need)
        for m in self.modules.values():
            for n in ast.walk(m.tree):
                if isinstance(n, FORBIDDEN):
                    raise AnalysisError("model", "%s:%d uses %s (outside the modelled subset)" % (
                        m.relpath, n.lineno, type(n).__name__))
                if isinstance(n, ast.Call) and isinstance(n.func, ast.Name) and n.func.id in ("exec", "eval"):
                    raise AnalysisError("model", "%s:%d uses %s()" % (m.relpath, n.lineno, n.func.id))
        self._allfuncs = None

    # ---- lookup ---------------------------------------------------------
    def module(self, name):
        return self.modules[name]

    def cls(self, name, module=None):
        mods = [self.modules[module]] if module else self.modules.values()
        for m in mods:
            if name in m.classes:
                return m.classes[name]
        return None

    def need_cls(self, name, rule="model"):
        c = self.cls(name)
        if c is None:
            raise AnalysisError(rule, "class %s not found" % name)
        return c

    def all_classes(self):
        for m in self.modules.values():
            for c in m.classes.values():
                yield c

    def all_funcs(self):
        if self._allfuncs is None:
            self._allfuncs = []
            for m in self.modules.values():
                self._allfuncs.extend(m.all_funcs())
        return self._allfuncs

    def bases(self, c):
        out = []
        for b in c.base_names:
            bc = c.module.classes.get(b) or self.cls(b)
            if bc is not None:
                out.append(bc)
        return out

    def mro(self, c):
        """Linearisation good enough for single inheritance chains (all the
        repository uses)."""
        out = [c]
        for b in self.bases(c):
            for x in self.mro(b):
                if x not in out:
                    out.append(x)
        return out

    def is_subclass(self, c, basename):
        return any(x.name == basename for x in self.mro(c))

    def subclasses(self, basename, strict=True):
        out = []
        for c in self.all_classes():
            if self.is_subclass(c, basename) and not (strict and c.name == basename):
                out.append(c)
        return out

    def method(self, c, name):
        for x in self.mro(c):
            if name in x.methods:
                return x.methods[name]
        return None

    def class_attr(self, c, name):
        for x in self.mro(c):
            if name in x.attrs:
                return x.attrs[name], x
        return None, None

    def func(self, qual, rule="model"):
        """'Class.method' or 'module.func'."""
        a, _, b = qual.partition(".")
        if a in self.modules and b in self.modules[a].funcs:
            return self.modules[a].funcs[b]
        c = self.cls(a)
        if c is not None:
            f = self.method(c, b)
            if f is not None:
                return f
        raise AnalysisError(rule, "function %s not found" % qual)

    def find_func(self, qual):
        try:
            return self.func(qual)
        except AnalysisError:
            return None

    def loc(self, node, module=None):
        if module is None:
            p = node
            while getattr(p, "_parent", None) is not None:
                p = p._parent
            for m in self.modules.values():
                if m.tree is p:
                    module = m
                    break
        return "%s:%d" % (module.relpath if module else "?", getattr(node, "lineno", 0))


def attr_chain(node):
    """a.b.c -> ['a','b','c'] ; None if not a pure name/attribute chain."""
    parts = []
    while isinstance(node, ast.Attribute):
        parts.append(node.attr)
        node = node.value
    if isinstance(node, ast.Name):
        parts.append(node.id)
        return list(reversed(parts))
    return None


def self_attr(node, selfname="self"):
    """If node is `self.X`, return X (unmangled source name)."""
    if isinstance(node, ast.Attribute) and isinstance(node.value, ast.Name) and node.value.id == selfname:
        return node.attr
    return None


def norm(node):
    """Normalised text of a node: the key used for findings (never line
    numbers)."""
    try:
        return ast.unparse(node)
    except Exception:
        return ast.dump(node)


def calls_in(node):
    for n in ast.walk(node):
        if isinstance(n, ast.Call):
            yield n


def call_name(call):
    """Last component of the callee: f(...) -> 'f', a.b.f(...) -> 'f'."""
    f = call.func
    if isinstance(f, ast.Name):
        return f.id
    if isinstance(f, ast.Attribute):
        return f.attr
    return None


def is_self_call(call, name=None, selfname="self"):
    f = call.func
    if isinstance(f, ast.Attribute) and isinstance(f.value, ast.Name) and f.value.id == selfname:
        return name is None or f.attr == name
    return False


def stmt_of(node):
    """Innermost statement containing node."""
    p = node
    while p is not None and not isinstance(p, ast.stmt):
        p = getattr(p, "_parent", None)
    return p


def walk_no_nested(node):
    """ast.walk that does not descend into nested function/class/lambda
    definitions (their bodies run at another time)."""
    todo = [node]
    first = True
    while todo:
        n = todo.pop()
        if not first and isinstance(n, (ast.FunctionDef, ast.AsyncFunctionDef, ast.ClassDef, ast.Lambda)):
            continue
        first = False
        yield n
        todo.extend(ast.iter_child_nodes(n))
