"""String-building expressions as templates, whatever their spelling.

    "a %s b" % x        "a {} b".format(x)        f"a {x} b"        "a " + x + " b"

all become  [Lit("a "), Hole(x), Lit(" b")].  Rules compare templates, so that switching between the four spellings of the same
text is not mistaken for a change of the text.
"""
import ast
import re

from .consteval import TOP


class Lit:
    def __init__(self, v):
        self.v = v

    def __repr__(self):
        return "Lit(%r)" % (self.v,)


class Hole:
    def __init__(self, expr, conv=None, spec=None):
        self.expr = expr
        self.conv = conv  # None | "s" | "r" | "d" ... (for %-style the conversion character, for {}-style the !x conversion)
        self.spec = spec  # explicit format spec text ({:>4}, %05d), None when plain

    def __repr__(self):
        return "Hole(%s%s)" % (ast.unparse(self.expr), ("!" + self.conv) if self.conv else "")


_PCT = re.compile(r"%(?:\((?P<key>[^)]*)\))?(?P<flags>[-#0 +]*)(?P<width>\*|\d+)?(?:\.(?P<prec>\*|\d+))?(?P<conv>[sdrifgGeExXoca%])")
_FMT = re.compile(r"\{\{|\}\}|\{(?P<field>[^{}!:]*)(?:!(?P<conv>[sra]))?(?::(?P<spec>[^{}]*))?\}")


def _fold(p, isb=None):
    """A hole filled with a constant is literal text."""
    if isinstance(p, Hole) and isinstance(p.expr, ast.Constant) and p.spec is None:
        v = p.expr.value
        if isinstance(v, str) and p.conv in (None, "s") and isb is not True:
            return Lit(v)
        if isinstance(v, bytes) and p.conv in (None, "s") and isb is True:
            return Lit(v)
        if isinstance(v, int) and not isinstance(v, bool) and p.conv in (None, "s", "d") and isb is not True:
            return Lit(str(v))
        if isinstance(v, int) and not isinstance(v, bool) and p.conv == "d" and isb is True:
            return Lit(str(v).encode())
    return p


def _merge(parts):
    isb = None
    for p in parts:
        if isinstance(p, Lit):
            isb = isinstance(p.v, bytes)
            break
    parts = [_fold(p, isb) for p in parts]
    out = []
    for p in parts:
        if isinstance(p, Lit) and out and isinstance(out[-1], Lit) and type(out[-1].v) is type(p.v):
            out[-1] = Lit(out[-1].v + p.v)
        elif isinstance(p, Lit) and not p.v and out:
            continue
        else:
            out.append(p)
    return out


def template(e, const=None):
    """Parts of the string-building expression e, or None when e is not one.  `const(expr)` may resolve names to constants
    (returns TOP when it cannot)."""
    def cv(x):
        if isinstance(x, ast.Constant):
            return x.value
        if const is not None:
            return const(x)
        return TOP

    v = cv(e)
    if isinstance(v, (str, bytes)):
        return [Lit(v)]
    if isinstance(e, ast.JoinedStr):
        parts = []
        for p in e.values:
            if isinstance(p, ast.Constant):
                parts.append(Lit(p.value))
            elif isinstance(p, ast.FormattedValue):
                conv = {-1: None, 115: "s", 114: "r", 97: "a"}.get(p.conversion, "?")
                spec = None
                if p.format_spec is not None:
                    sp = template(p.format_spec, const)
                    spec = sp[0].v if sp and len(sp) == 1 and isinstance(sp[0], Lit) else "?"
                    if spec == "":
                        spec = None
                parts.append(Hole(p.value, conv, spec))
        return _merge(parts)
    if isinstance(e, ast.BinOp) and isinstance(e.op, ast.Mod):
        f = cv(e.left)
        if not isinstance(f, (str, bytes)):
            return None
        isb = isinstance(f, bytes)
        text = f.decode("latin-1") if isb else f
        args = list(e.right.elts) if isinstance(e.right, ast.Tuple) else [e.right]
        parts, pos, i = [], 0, 0
        for m in _PCT.finditer(text):
            lit = text[pos:m.start()]
            pos = m.end()
            if lit:
                parts.append(Lit(lit.encode("latin-1") if isb else lit))
            if m.group("conv") == "%":
                parts.append(Lit(b"%" if isb else "%"))
                continue
            if m.group("key") is not None:
                return None
            if i >= len(args):
                return None  # arity mismatch (rule X9 reports it)
            spec = (m.group("flags") or "") + (m.group("width") or "") + (("." + m.group("prec")) if m.group("prec") else "")
            parts.append(Hole(args[i], m.group("conv"), spec or None))
            i += 1
        if i != len(args):
            return None
        lit = text[pos:]
        if lit:
            parts.append(Lit(lit.encode("latin-1") if isb else lit))
        return _merge(parts) or [Lit(b"" if isb else "")]
    if isinstance(e, ast.Call) and isinstance(e.func, ast.Attribute) and e.func.attr == "format" and not e.keywords:
        f = cv(e.func.value)
        if not isinstance(f, str) or any(isinstance(a, ast.Starred) for a in e.args):
            return None
        parts, pos, auto = [], 0, 0
        for m in _FMT.finditer(f):
            lit = f[pos:m.start()]
            pos = m.end()
            if lit:
                parts.append(Lit(lit))
            if m.group(0) in ("{{", "}}"):
                parts.append(Lit(m.group(0)[0]))
                continue
            fld = m.group("field")
            if fld == "":
                idx = auto
                auto += 1
            elif fld.isdigit():
                idx = int(fld)
            else:
                return None
            if idx >= len(e.args):
                return None
            parts.append(Hole(e.args[idx], m.group("conv"), m.group("spec") or None))
        lit = f[pos:]
        if lit:
            parts.append(Lit(lit))
        return _merge(parts) or [Lit("")]
    if isinstance(e, ast.BinOp) and isinstance(e.op, ast.Add):
        l, r = template(e.left, const), template(e.right, const)
        if l is None and r is None:
            return None
        return _merge((l if l is not None else [Hole(e.left)]) + (r if r is not None else [Hole(e.right)]))
    return None


def shape(parts):
    """The literal skeleton with `\\0` for every hole (comparison key)."""
    if parts is None:
        return None
    out = []
    for p in parts:
        if isinstance(p, Lit):
            out.append(p.v.decode("latin-1") if isinstance(p.v, bytes) else p.v)
        else:
            out.append("\0")
    return "".join(out)


def holes(parts):
    return [p for p in (parts or []) if isinstance(p, Hole)]
