"""Literal evaluation with name resolution (no code of the repository runs).

Evaluates dict/list/tuple/set/str/bytes/number literals, names bound once at
module or class level to such values, `+` on sequences/strings, `%` and
`.format` with constant operands, and f-strings with constant parts.
Anything else is TOP; consumers must treat TOP as "no verdict".
"""
import ast


class Top:
    def __repr__(self):
        return "TOP"


TOP = Top()


class Evaluator:
    def __init__(self, program, module, cls=None, env=None):
        self.program = program
        self.module = module
        self.cls = cls
        self.env = env or {}
        self._busy = set()

    def lookup(self, name):
        if name in self.env:
            return self.env[name]
        key = (self.module.name, self.cls.name if self.cls else None, name)
        if key in self._busy:
            return TOP
        self._busy.add(key)
        try:
            if self.cls is not None:
                e, owner = self.program.class_attr(self.cls, name)
                if e is not None and len(owner.attr_nodes.get(name, [])) == 1:
                    return Evaluator(self.program, owner.module, owner).eval(e)
            if name in self.module.assigns:
                if len(self.module.assign_nodes.get(name, [])) != 1:
                    return TOP
                return Evaluator(self.program, self.module).eval(self.module.assigns[name])
            if name in self.module.imports:
                imp = self.module.imports[name]
                if imp[0] == "name":
                    mn = imp[1].split(".")[-1]
                    m = self.program.modules.get(mn)
                    if m is not None and imp[2] in m.assigns:
                        return Evaluator(self.program, m).eval(m.assigns[imp[2]])
            if name in ("True", "False", "None"):
                return {"True": True, "False": False, "None": None}[name]
            return TOP
        finally:
            self._busy.discard(key)

    def eval(self, e):
        if isinstance(e, ast.Constant):
            return e.value
        if isinstance(e, ast.Name):
            return self.lookup(e.id)
        if isinstance(e, (ast.List, ast.Tuple, ast.Set)):
            vals = []
            for x in e.elts:
                if isinstance(x, ast.Starred):
                    v = self.eval(x.value)
                    if v is TOP:
                        return TOP
                    vals.extend(v)
                    continue
                v = self.eval(x)
                if v is TOP:
                    return TOP
                vals.append(v)
            if isinstance(e, ast.List):
                return vals
            if isinstance(e, ast.Tuple):
                return tuple(vals)
            try:
                return set(vals)
            except TypeError:
                return TOP
        if isinstance(e, ast.Dict):
            out = {}
            for k, v in zip(e.keys, e.values):
                if k is None:
                    vv = self.eval(v)
                    if vv is TOP or not isinstance(vv, dict):
                        return TOP
                    out.update(vv)
                    continue
                kk = self.eval(k)
                vv = self.eval(v)
                if kk is TOP or vv is TOP:
                    return TOP
                try:
                    out[kk] = vv
                except TypeError:
                    return TOP
            return out
        if isinstance(e, ast.BinOp):
            l = self.eval(e.left)
            r = self.eval(e.right)
            if l is TOP or r is TOP:
                return TOP
            try:
                if isinstance(e.op, ast.Add):
                    return l + r
                if isinstance(e.op, ast.Mod):
                    return l % r
                if isinstance(e.op, ast.Mult):
                    return l * r
                if isinstance(e.op, ast.Sub):
                    return l - r
                if isinstance(e.op, ast.BitOr):
                    return l | r
            except Exception:
                return TOP
            return TOP
        if isinstance(e, ast.UnaryOp):
            v = self.eval(e.operand)
            if v is TOP:
                return TOP
            try:
                if isinstance(e.op, ast.Not):
                    return not v
                if isinstance(e.op, ast.USub):
                    return -v
            except Exception:
                return TOP
            return TOP
        if isinstance(e, ast.JoinedStr):
            out = ""
            for p in e.values:
                if isinstance(p, ast.Constant):
                    out += str(p.value)
                else:
                    v = self.eval(p.value)
                    if v is TOP or p.format_spec is not None:
                        return TOP
                    out += str(v)
            return out
        if isinstance(e, ast.Call):
            f = e.func
            if isinstance(f, ast.Attribute) and not e.keywords:
                recv = self.eval(f.value)
                if recv is TOP:
                    return TOP
                args = [self.eval(a) for a in e.args]
                if any(a is TOP for a in args):
                    return TOP
                if isinstance(recv, (str, bytes)) and f.attr in (
                        "format", "join", "lower", "upper", "strip", "encode", "decode", "replace", "split",
                        "capitalize"):
                    try:
                        return getattr(recv, f.attr)(*args)
                    except Exception:
                        return TOP
                if isinstance(recv, dict) and f.attr in ("keys", "values", "items", "get", "copy"):
                    try:
                        r = getattr(recv, f.attr)(*args)
                        return list(r) if f.attr in ("keys", "values", "items") else r
                    except Exception:
                        return TOP
                if isinstance(recv, list) and f.attr == "copy":
                    return list(recv)
            if isinstance(f, ast.Name) and f.id in ("dict", "list", "tuple", "set", "frozenset", "str", "len", "sorted") \
                    and f.id not in self.module.assigns and f.id not in self.module.funcs:
                args = [self.eval(a) for a in e.args]
                if any(a is TOP for a in args):
                    return TOP
                kw = {}
                for k in e.keywords:
                    if k.arg is None:
                        return TOP
                    v = self.eval(k.value)
                    if v is TOP:
                        return TOP
                    kw[k.arg] = v
                try:
                    return {"dict": dict, "list": list, "tuple": tuple, "set": set, "frozenset": frozenset,
                            "str": str, "len": len, "sorted": sorted}[f.id](*args, **kw)
                except Exception:
                    return TOP
            return TOP
        if isinstance(e, ast.Attribute):
            # module.NAME or Class.NAME
            if isinstance(e.value, ast.Name):
                base = e.value.id
                imp = self.module.imports.get(base)
                if imp is not None:
                    mn = (imp[1] if imp[0] == "module" else (imp[1] + "." + imp[2])).split(".")[-1]
                    m = self.program.modules.get(mn)
                    if m is not None and e.attr in m.assigns and len(m.assign_nodes.get(e.attr, [])) == 1:
                        return Evaluator(self.program, m).eval(m.assigns[e.attr])
                c = self.module.classes.get(base) or self.program.cls(base)
                if c is not None:
                    ex, owner = self.program.class_attr(c, e.attr)
                    if ex is not None:
                        return Evaluator(self.program, owner.module, owner).eval(ex)
            return TOP
        if isinstance(e, ast.Subscript):
            v = self.eval(e.value)
            if v is TOP:
                return TOP
            if isinstance(e.slice, ast.Slice):
                lo = self.eval(e.slice.lower) if e.slice.lower else None
                hi = self.eval(e.slice.upper) if e.slice.upper else None
                if lo is TOP or hi is TOP or e.slice.step is not None:
                    return TOP
                try:
                    return v[lo:hi]
                except Exception:
                    return TOP
            k = self.eval(e.slice)
            if k is TOP:
                return TOP
            try:
                return v[k]
            except Exception:
                return TOP
        if isinstance(e, ast.IfExp):
            t = self.eval(e.test)
            if t is TOP:
                return TOP
            return self.eval(e.body if t else e.orelse)
        return TOP


def class_value(program, c, name):
    """Evaluate class attribute `name` of class c through the MRO; returns
    (value, owner class) or (TOP, None)."""
    e, owner = program.class_attr(c, name)
    if e is None:
        return TOP, None
    return Evaluator(program, owner.module, owner).eval(e), owner


def command_table(program, rule="T"):
    """The evaluated command table: {class name: {...}} for every subclass of
    Command in commands.py that defines/inherits args_definition."""
    from .model import AnalysisError
    base = program.cls("Command", "commands")
    if base is None:
        raise AnalysisError(rule, "class Command not found in commands.py")
    table = {}
    for c in program.subclasses("Command"):
        adef, owner = class_value(program, c, "args_definition")
        entry = {"class": c.name, "module": c.module.name, "lineno": c.node.lineno,
                 "abstract": owner is None or owner is base, "args_definition": None}
        entry["inherits_base_definition"] = owner is base and c is not base
        if owner is not None:
            if adef is TOP:
                raise AnalysisError(rule, "args_definition of %s is not statically evaluable" % c.name)
            entry["args_definition"] = adef
        for attr, default in (("_type", None), ("variable_args_nb", False), ("non_deterministic_args", False),
                              ("accept_children", False), ("must_follow", None), ("extension", None)):
            v, o = class_value(program, c, attr)
            if o is None:
                v = default
            elif v is TOP:
                raise AnalysisError(rule, "%s.%s is not statically evaluable" % (c.name, attr))
            entry[attr] = v
        entry["name"] = c.name.replace("Command", "").lower()
        entry["overrides"] = sorted(m for m in ("complete_cb", "reassign_arguments", "get_expected_first",
                                                 "args_as_tuple")
                                    if any(m in x.methods for x in program.mro(c) if x.name != "Command"))
        table[c.name] = entry
    return table
