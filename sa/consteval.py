"""Literal evaluation with name resolution (no code of the repository runs).

Evaluates dict/list/tuple/set/str/bytes/number literals, names bound once at
module or class level to such values, `+` on sequences/strings, `%` and
`.format` with constant operands, and f-strings with constant parts.
Anything else is TOP; consumers must treat TOP as "no verdict".
"""
import ast


class Top:
    def __repr__(self):
        return "TOP"


TOP = Top()


class Evaluator:
    def __init__(self, program, module, cls=None, env=None):
        self.program = program
        self.module = module
        self.cls = cls
        self.env = env or {}
        self._busy = set()

    def lookup(self, name):
        if name in self.env:
            return self.env[name]
        key = (self.module.name, self.cls.name if self.cls else None, name)
        if key in self._busy:
            return TOP
        self._busy.add(key)
        try:
            if self.cls is not None:
                e, owner = self.program.class_attr(self.cls, name)
                if e is not None and len(owner.attr_nodes.get(name, [])) == 1:
                    return Evaluator(self.program, owner.module, owner).eval(e)
            if name in self.module.assigns:
                if len(self.module.assign_nodes.get(name, [])) != 1:
                    return TOP
                return Evaluator(self.program, self.module).eval(self.module.assigns[name])
            if name in self.module.imports:
                imp = self.module.imports[name]
                if imp[0] == "name":
                    mn = imp[1].split(".")[-1]
                    m = self.program.modules.get(mn)
                    if m is not None and imp[2] in m.assigns:
                        return Evaluator(self.program, m).eval(m.assigns[imp[2]])
            if name in ("True", "False", "None"):
                return {"True": True, "False": False, "None": None}[name]
            return TOP
        finally:
            self._busy.discard(key)

    def eval(self, e):
        if isinstance(e, ast.Constant):
            return e.value
        if isinstance(e, ast.Name):
            return self.lookup(e.id)
        if isinstance(e, (ast.List, ast.Tuple, ast.Set)):
            vals = []
            for x in e.elts:
                if isinstance(x, ast.Starred):
                    v = self.eval(x.value)
                    if v is TOP:
                        return TOP
                    vals.extend(v)
                    continue
                v = self.eval(x)
                if v is TOP:
                    return TOP
                vals.append(v)
            if isinstance(e, ast.List):
                return vals
            if isinstance(e, ast.Tuple):
                return tuple(vals)
            try:
                return set(vals)
            except TypeError:
                return TOP
        if isinstance(e, ast.Dict):
            out = {}
            for k, v in zip(e.keys, e.values):
                if k is None:
                    vv = self.eval(v)
                    if vv is TOP or not isinstance(vv, dict):
                        return TOP
                    out.update(vv)
                    continue
                kk = self.eval(k)
                vv = self.eval(v)
                if kk is TOP or vv is TOP:
                    return TOP
                try:
                    out[kk] = vv
                except TypeError:
                    return TOP
            return out
        if isinstance(e, ast.BinOp):
            l = self.eval(e.left)
            r = self.eval(e.right)
            if l is TOP or r is TOP:
                return TOP
            try:
                if isinstance(e.op, ast.Add):
                    return l + r
                if isinstance(e.op, ast.Mod):
                    return l % r
                if isinstance(e.op, ast.Mult):
                    return l * r
                if isinstance(e.op, ast.Sub):
                    return l - r
                if isinstance(e.op, ast.BitOr):
                    return l | r
            except Exception:
                return TOP
            return TOP
        if isinstance(e, ast.UnaryOp):
            v = self.eval(e.operand)
            if v is TOP:
                return TOP
            try:
                if isinstance(e.op, ast.Not):
                    return not v
                if isinstance(e.op, ast.USub):
                    return -v
            except Exception:
                return TOP
            return TOP
        if isinstance(e, ast.JoinedStr):
            out = ""
            for p in e.values:
                if isinstance(p, ast.Constant):
                    out += str(p.value)
                else:
                    v = self.eval(p.value)
                    if v is TOP or p.format_spec is not None:
                        return TOP
                    out += str(v)
            return out
        if isinstance(e, ast.Call):
            f = e.func
            if isinstance(f, ast.Attribute) and not e.keywords:
                recv = self.eval(f.value)
                if recv is TOP:
                    return TOP
                args = [self.eval(a) for a in e.args]
                if any(a is TOP for a in args):
                    return TOP
                if isinstance(recv, (str, bytes)) and f.attr in (
                        "format", "join", "lower", "upper", "strip", "encode", "decode", "replace", "split",
                        "capitalize"):
                    try:
                        return getattr(recv, f.attr)(*args)
                    except Exception:
                        return TOP
                if isinstance(recv, dict) and f.attr in ("keys", "values", "items", "get", "copy"):
                    try:
                        r = getattr(recv, f.attr)(*args)
                        return list(r) if f.attr in ("keys", "values", "items") else r
                    except Exception:
                        return TOP
                if isinstance(recv, list) and f.attr == "copy":
                    return list(recv)
            if isinstance(f, ast.Name) and f.id in self.module.funcs and f.id not in self.env:
                return self._call_builder(self.module.funcs[f.id], e)
            if isinstance(f, ast.Name) and f.id in ("dict", "list", "tuple", "set", "frozenset", "str", "len", "sorted") \
                    and f.id not in self.module.assigns and f.id not in self.module.funcs:
                args = [self.eval(a) for a in e.args]
                if any(a is TOP for a in args):
                    return TOP
                kw = {}
                for k in e.keywords:
                    if k.arg is None:
                        return TOP
                    v = self.eval(k.value)
                    if v is TOP:
                        return TOP
                    kw[k.arg] = v
                try:
                    return {"dict": dict, "list": list, "tuple": tuple, "set": set, "frozenset": frozenset,
                            "str": str, "len": len, "sorted": sorted}[f.id](*args, **kw)
                except Exception:
                    return TOP
            return TOP
        if isinstance(e, ast.Attribute):
            # module.NAME or Class.NAME
            if isinstance(e.value, ast.Name):
                base = e.value.id
                imp = self.module.imports.get(base)
                if imp is not None:
                    mn = (imp[1] if imp[0] == "module" else (imp[1] + "." + imp[2])).split(".")[-1]
                    m = self.program.modules.get(mn)
                    if m is not None and e.attr in m.assigns and len(m.assign_nodes.get(e.attr, [])) == 1:
                        return Evaluator(self.program, m).eval(m.assigns[e.attr])
                c = self.module.classes.get(base) or self.program.cls(base)
                if c is not None:
                    ex, owner = self.program.class_attr(c, e.attr)
                    if ex is not None:
                        return Evaluator(self.program, owner.module, owner).eval(ex)
            return TOP
        if isinstance(e, ast.Subscript):
            v = self.eval(e.value)
            if v is TOP:
                return TOP
            if isinstance(e.slice, ast.Slice):
                lo = self.eval(e.slice.lower) if e.slice.lower else None
                hi = self.eval(e.slice.upper) if e.slice.upper else None
                if lo is TOP or hi is TOP or e.slice.step is not None:
                    return TOP
                try:
                    return v[lo:hi]
                except Exception:
                    return TOP
            k = self.eval(e.slice)
            if k is TOP:
                return TOP
            try:
                return v[k]
            except Exception:
                return TOP
        if isinstance(e, ast.Compare) and len(e.ops) == 1:
            l, r = self.eval(e.left), self.eval(e.comparators[0])
            if l is TOP or r is TOP:
                return TOP
            op = e.ops[0]
            try:
                if isinstance(op, ast.Is):
                    return l is r if (l is None or r is None or isinstance(l, bool) or isinstance(r, bool)) else TOP
                if isinstance(op, ast.IsNot):
                    return l is not r if (l is None or r is None or isinstance(l, bool) or isinstance(r, bool)) else TOP
                if isinstance(op, ast.Eq):
                    return l == r
                if isinstance(op, ast.NotEq):
                    return l != r
                if isinstance(op, ast.In):
                    return l in r
                if isinstance(op, ast.NotIn):
                    return l not in r
            except Exception:
                return TOP
            return TOP
        if isinstance(e, ast.BoolOp):
            res = None
            for x in e.values:
                res = self.eval(x)
                if res is TOP:
                    return TOP
                if isinstance(e.op, ast.And) and not res:
                    return res
                if isinstance(e.op, ast.Or) and res:
                    return res
            return res
        if isinstance(e, ast.IfExp):
            t = self.eval(e.test)
            if t is TOP:
                return TOP
            return self.eval(e.body if t else e.orelse)
        return TOP


class _Return(Exception):
    def __init__(self, value):
        self.value = value


class _Unknown(Exception):
    pass


def _call_builder(self, func, call, depth=0):
    """Value of a call of a module-level function that only builds a value from its arguments (table constructors such as
    `_tag("copy", ":copy", extension="copy")`): its statements are interpreted over constants - assignments, `if`, `for` over known
    sequences, `return`, item stores and list/dict methods on values created in the call.  Anything else makes the result unknown."""
    node = func.node
    a = node.args
    if getattr(self, "_depth", 0) > 6 or node.decorator_list or a.posonlyargs:
        return TOP
    import copy as _copy
    pos = [x.arg for x in a.args]
    env = {}
    args = []
    for x in call.args:
        if isinstance(x, ast.Starred):
            v = self.eval(x.value)
            if v is TOP:
                return TOP
            args.extend(list(v))
        else:
            v = self.eval(x)
            if v is TOP:
                return TOP
            args.append(v)
    if len(args) > len(pos) and a.vararg is None:
        return TOP
    for nm, v in zip(pos, args):
        env[nm] = v
    if a.vararg is not None:
        env[a.vararg.arg] = tuple(args[len(pos):])
    for k in call.keywords:
        if k.arg is None:
            return TOP
        v = self.eval(k.value)
        if v is TOP or k.arg in env or k.arg not in pos + [x.arg for x in a.kwonlyargs]:
            return TOP
        env[k.arg] = v
    dflt = func.defaults()
    for nm in pos + [x.arg for x in a.kwonlyargs]:
        if nm not in env:
            if nm not in dflt:
                return TOP
            v = Evaluator(self.program, func.module).eval(dflt[nm])
            if v is TOP:
                return TOP
            env[nm] = _copy.deepcopy(v)
    if a.kwarg is not None:
        return TOP
    sub = Evaluator(self.program, func.module, None, env)
    sub._depth = getattr(self, "_depth", 0) + 1
    steps = [0]

    def ev(e):
        v = sub.eval(e)
        if v is TOP:
            raise _Unknown()
        return v

    def run(stmts):
        for st in stmts:
            steps[0] += 1
            if steps[0] > 2000:
                raise _Unknown()
            if isinstance(st, ast.Expr) and isinstance(st.value, ast.Constant):
                continue
            if isinstance(st, ast.Pass):
                continue
            if isinstance(st, (ast.Assign, ast.AnnAssign)):
                if getattr(st, "value", None) is None:
                    continue
                v = ev(st.value)
                for t in (st.targets if isinstance(st, ast.Assign) else [st.target]):
                    store(t, v)
                continue
            if isinstance(st, ast.AugAssign) and isinstance(st.target, ast.Name) and isinstance(st.op, ast.Add):
                env[st.target.id] = ev(ast.BinOp(left=ast.Name(id=st.target.id, ctx=ast.Load()), op=ast.Add(), right=st.value))
                continue
            if isinstance(st, ast.If):
                run(st.body if ev(st.test) else st.orelse)
                continue
            if isinstance(st, ast.For) and isinstance(st.target, (ast.Name, ast.Tuple)) and not st.orelse:
                for item in list(ev(st.iter)):
                    store(st.target, item)
                    run(st.body)
                continue
            if isinstance(st, ast.Return):
                raise _Return(ev(st.value) if st.value is not None else None)
            if isinstance(st, ast.Expr) and isinstance(st.value, ast.Call) and isinstance(st.value.func, ast.Attribute) \
                    and isinstance(st.value.func.value, ast.Name) and st.value.func.value.id in env and not st.value.keywords \
                    and st.value.func.attr in ("append", "extend", "update", "setdefault", "insert"):
                recv = env[st.value.func.value.id]
                argv = [ev(x) for x in st.value.args]
                if isinstance(recv, (list, dict)):
                    getattr(recv, st.value.func.attr)(*argv)
                    continue
            raise _Unknown()

    def store(t, v):
        if isinstance(t, ast.Name):
            env[t.id] = v
        elif isinstance(t, ast.Tuple) and all(isinstance(x, ast.Name) for x in t.elts):
            v = list(v)
            if len(v) != len(t.elts):
                raise _Unknown()
            for x, y in zip(t.elts, v):
                env[x.id] = y
        elif isinstance(t, ast.Subscript) and isinstance(t.value, ast.Name) and t.value.id in env and isinstance(env[t.value.id], (dict, list)) \
                and t.value.id not in pos:
            env[t.value.id][ev(t.slice)] = v
        else:
            raise _Unknown()
    try:
        run(node.body)
    except _Return as r:
        return r.value
    except _Unknown:
        return TOP
    except Exception:
        return TOP
    return None


Evaluator._call_builder = _call_builder


def class_value(program, c, name):
    """Evaluate class attribute `name` of class c through the MRO; returns
    (value, owner class) or (TOP, None)."""
    e, owner = program.class_attr(c, name)
    if e is None:
        return TOP, None
    return Evaluator(program, owner.module, owner).eval(e), owner


def command_table(program, rule="T"):
    """The evaluated command table: {class name: {...}} for every subclass of
    Command in commands.py that defines/inherits args_definition."""
    from .model import AnalysisError
    base = program.cls("Command", "commands")
    if base is None:
        raise AnalysisError(rule, "class Command not found in commands.py")
    table = {}
    for c in program.subclasses("Command"):
        adef, owner = class_value(program, c, "args_definition")
        entry = {"class": c.name, "module": c.module.name, "lineno": c.node.lineno,
                 "abstract": owner is None or owner is base, "args_definition": None}
        entry["inherits_base_definition"] = owner is base and c is not base
        if owner is not None:
            if adef is TOP:
                raise AnalysisError(rule, "args_definition of %s is not statically evaluable" % c.name)
            entry["args_definition"] = adef
        for attr, default in (("_type", None), ("variable_args_nb", False), ("non_deterministic_args", False),
                              ("accept_children", False), ("must_follow", None), ("extension", None)):
            v, o = class_value(program, c, attr)
            if o is None:
                v = default
            elif v is TOP:
                raise AnalysisError(rule, "%s.%s is not statically evaluable" % (c.name, attr))
            entry[attr] = v
        entry["name"] = c.name.replace("Command", "").lower()
        entry["overrides"] = sorted(m for m in ("complete_cb", "reassign_arguments", "get_expected_first",
                                                 "args_as_tuple")
                                    if any(m in x.methods for x in program.mro(c) if x.name != "Command"))
        table[c.name] = entry
    return table
