"""Self-validation of the checkers on scratch variants of the current tree.

Each variant is a copy of /repo/sievelib (tests excluded) in a fresh temporary
directory with one or more textual edits applied (every edit must match
exactly once in the current source, otherwise the variant is reported as
"not applicable" - the tree has moved on - and skipped).  Seeded variants
must make the named rule fire (exit 1, FINDING line naming the rule); benign
variants must leave the verdict unchanged (exit 0, no FINDING).  A miss or a
false alarm is a defect of the checker: ANALYSIS-ERROR, exit 2 - never a
property violation of /repo.  Scratch copies are removed immediately.
"""
import json
import os
import shutil
import subprocess
import sys
import tempfile
import time
from concurrent.futures import ThreadPoolExecutor

HERE = os.path.dirname(os.path.abspath(__file__))
VERIF = os.path.dirname(HERE)
CHECK = os.path.join(VERIF, "check")
PY = "/venv/bin/python"


def make_variant(edits, base="/repo"):
    """-> (dir, None) or (None, reason)"""
    d = tempfile.mkdtemp(prefix="sievelib-variant-")
    dst = os.path.join(d, "sievelib")
    os.makedirs(dst)
    for fn in os.listdir(os.path.join(base, "sievelib")):
        if fn.endswith(".py"):
            shutil.copy(os.path.join(base, "sievelib", fn), os.path.join(dst, fn))
    for rel, old, new in edits:
        p = os.path.join(d, rel)
        with open(p, encoding="utf-8") as fp:
            s = fp.read()
        n = s.count(old)
        if n != 1:
            shutil.rmtree(d, ignore_errors=True)
            return None, "edit anchor occurs %d times in %s: %r" % (n, rel, old[:60])
        s = s.replace(old, new)
        try:
            import warnings
            with warnings.catch_warnings():
                warnings.simplefilter("ignore")
                compile(s, p, "exec")
        except SyntaxError as e:
            shutil.rmtree(d, ignore_errors=True)
            return None, "variant does not compile: %s" % e
        with open(p, "w", encoding="utf-8") as fp:
            fp.write(s)
    return d, None


def run_check(prop, repo, tier="quick"):
    env = dict(os.environ)
    env["VERIF_TIER"] = tier
    r = subprocess.run([PY, CHECK, prop, "--tier", "quick", "--repo", repo], capture_output=True, text=True, env=env,
                       timeout=600)
    return r.returncode, r.stdout + r.stderr


def findings_of(out):
    return sorted(l for l in out.splitlines() if l.startswith("FINDING "))


def run_variant(v, prop):
    d, why = make_variant(v["edits"])
    if d is not None and v.get("patch"):
        r = subprocess.run(["patch", "-p1", "-s", "-d", d, "-i", v["patch"]], capture_output=True, text=True)
        if r.returncode != 0:
            shutil.rmtree(d, ignore_errors=True)
            d, why = None, "patch does not apply to the current tree"
    if d is None:
        return {"id": v["id"], "status": "not-applicable", "why": why}
    try:
        rc, out = run_check(prop, d)
    finally:
        shutil.rmtree(d, ignore_errors=True)
    fs = findings_of(out)
    res = {"id": v["id"], "kind": v["kind"], "rc": rc, "findings": fs}
    if v["kind"] == "seeded":
        want = v.get("rule")
        if isinstance(want, dict):
            want = want.get(prop)
        hit = [f for f in fs if want is None or (" rule=%s " % want) in f]
        if rc == 1 and hit:
            res["status"] = "detected"
        else:
            res["status"] = "MISSED"
            res["out"] = out[-1500:]
    else:
        if rc == 0 and not fs:
            res["status"] = "silent"
        else:
            res["status"] = "FALSE-ALARM"
            res["out"] = out[-1500:]
    return res


def seeded_patches(prop):
    """Seeded changes written by independent sub-agents (/verif/seeded/<id>/): each is a variant for every property whose
    check was confirmed to fire on it."""
    out = []
    root = os.path.join(VERIF, "seeded")
    if not os.path.isdir(root):
        return out
    for d in sorted(os.listdir(root)):
        mp = os.path.join(root, d, "meta.json")
        if not os.path.exists(mp):
            continue
        try:
            with open(mp) as fp:
                m = json.load(fp)
        except Exception:
            continue
        fired = (m.get("checks_that_fire") or {}).get(prop)
        if fired:
            out.append({"id": "seeded/" + d, "props": [prop], "kind": "seeded", "rule": fired[0].split(":")[0],
                        "patch": os.path.join(root, d, "patch.diff"), "edits": []})
    return out


def benign_patches():
    """Behaviour-preserving refactorings written by independent sub-agents (/verif/benign/<id>/): every check must stay silent."""
    out = []
    root = os.path.join(VERIF, "benign")
    if not os.path.isdir(root):
        return out
    for d in sorted(os.listdir(root)):
        pp = os.path.join(root, d, "patch.diff")
        if os.path.exists(pp):
            out.append({"id": "benign/" + d, "props": [], "kind": "benign", "rule": None, "patch": pp, "edits": []})
    return out


def corpus_for(prop):
    from . import corpus
    # seeded variants: the checks named for them; benign variants: EVERY check must stay silent on every behaviour-preserving edit
    return [v for v in corpus.VARIANTS if prop in v["props"] or v["kind"] == "benign"] + seeded_patches(prop) + benign_patches()


def run_for_property(prop, verbose=True):
    t0 = time.time()
    vs = corpus_for(prop)
    if not vs:
        print("SELFTEST property=%s no variants" % prop)
        return 0
    with ThreadPoolExecutor(max_workers=16) as ex:
        results = list(ex.map(lambda v: run_variant(v, prop), vs))
    bad = [r for r in results if r["status"] in ("MISSED", "FALSE-ALARM")]
    na = [r for r in results if r["status"] == "not-applicable"]
    det = sum(1 for r in results if r["status"] == "detected")
    sil = sum(1 for r in results if r["status"] == "silent")
    seeded = sum(1 for v in vs if v["kind"] == "seeded")
    benign = sum(1 for v in vs if v["kind"] == "benign")
    print("SELFTEST property=%s seeded=%d detected=%d benign=%d silent=%d not-applicable=%d wall=%.1fs" % (
        prop, seeded, det, benign, sil, len(na), time.time() - t0))
    for r in na:
        print("SELFTEST-SKIP %s: %s" % (r["id"], r["why"]))
    # record in the evidence file
    evp = os.path.join(VERIF, "evidence", "%s.json" % prop)
    try:
        with open(evp) as fp:
            ev = json.load(fp)
        ev["tier"] = "thorough"
        ev["coverage"]["selftest"] = {"seeded": seeded, "detected": det, "benign": benign, "silent": sil,
                                      "not_applicable": len(na),
                                      "variants": [{k: r[k] for k in ("id", "status")} for r in results]}
        ev["wall_s"] = round(ev.get("wall_s", 0) + time.time() - t0, 3)
        with open(evp, "w") as fp:
            json.dump(ev, fp, indent=1)
    except Exception:
        pass
    if bad:
        for r in bad:
            print("ANALYSIS-ERROR property=%s rule=selftest variant %s: %s\n%s" % (prop, r["id"], r["status"], r.get("out", "")))
        return 2
    return 0


if __name__ == "__main__":
    sys.path.insert(0, VERIF)
    rc = 0
    for p in sys.argv[1:]:
        rc = max(rc, run_for_property(p))
    sys.exit(rc)
