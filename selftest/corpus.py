"""Scratch-variant corpus for checker self-validation (see runner.py).

Each entry: id, props (checks that must react), kind (seeded|benign), rule
(for seeded: the rule expected to fire), edits [(file, old, new)], note.
Seeded edits still compile and - where noted - keep the unit tests green.
"""
M = "sievelib/managesieve.py"
P = "sievelib/parser.py"
C = "sievelib/commands.py"
F = "sievelib/factory.py"

VARIANTS = []


def seeded(id, props, rule, edits, note=""):
    VARIANTS.append({"id": id, "props": props, "kind": "seeded", "rule": rule, "edits": edits, "note": note})


def benign(id, props, edits, note=""):
    VARIANTS.append({"id": id, "props": props, "kind": "benign", "rule": None, "edits": edits, "note": note})


# --------------------------------------------------------------------------- C10
seeded("a1-deletescript-undecorated", ["C10"], "A1", [(M, '''    @authentication_required
    def deletescript(''', '''    def deletescript(''')], "all tests log in first")
seeded("a1-new-unguarded-method", ["C10"], "A1", [(M, '''    @authentication_required
    def setactive(''', '''    def purge(self, name: str) -> bool:
        code, data = self.__send_command("DELETESCRIPT", [name.encode("utf-8")])
        return code == "OK"

    @authentication_required
    def setactive(''')])
seeded("a1-helper-reachable-unguarded", ["C10"], "A1", [(M, '''    def logout(self):''', '''    def _drop(self, name):
        return self.__send_command("DELETESCRIPT", [name.encode("utf-8")])

    def cleanup(self, name):
        return self._drop(name)

    def logout(self):''')])
seeded("a1-direct-send", ["C10"], "A1", [(M, '''    def logout(self):''', '''    def ping_list(self):
        self.sock.sendall(b"LISTSCRIPTS" + CRLF)

    def logout(self):''')])
seeded("a2-guard-weakened", ["C10"], "A2", [(M, "        if cls.authenticated:\n", "        if cls.authenticated or cls.sock is not None:\n")])
seeded("a2-guard-returns", ["C10"], "A2", [(M, '''        raise Error("Authentication required")''', '''        return None''')])
seeded("a3-flag-before-verdict", ["C10"], "A3", [(M, '''            auth_method = getattr(self, "_%s_authentication" % mech)
''', '''            auth_method = getattr(self, "_%s_authentication" % mech)
            self.authenticated = True
''')])
seeded("a3-mechanism-true-on-no", ["C10"], "A3", [(M, '''        code, data = self.__send_command("AUTHENTICATE", [b"PLAIN", params])
        if code == "OK":
            return True
        return False''', '''        code, data = self.__send_command("AUTHENTICATE", [b"PLAIN", params])
        return code is not None''')])
seeded("a3-no-reset", ["C10"], "A3", [(M, '''        self.authenticated = False
        self.__capabilities = {}''', '''        self.__capabilities = {}''')])
seeded("a3-flag-set-in-starttls", ["C10"], "A3", [(M, '''        self.sock = nsock
''', '''        self.sock = nsock
        self.authenticated = True
''')])
seeded("a4-tls-result-ignored", ["C10"], "A4", [(M, '''        if starttls and not self.__starttls():
            return False''', '''        if starttls:
            self.__starttls()''')], "suite never requests STARTTLS")
seeded("a4-tls-after-auth", ["C10"], "A4", [(M, '''        if starttls and not self.__starttls():
            return False
        if self.__authenticate(login, password, authz_id, authmech):
            return True
        return False''', '''        ok = self.__authenticate(login, password, authz_id, authmech)
        if starttls and not self.__starttls():
            return False
        return ok''')])
seeded("a5-wrap-on-any-reply", ["C10"], "A5", [(M, '''        code, data = self.__send_command("STARTTLS")
        if code != "OK":
            return False
''', '''        code, data = self.__send_command("STARTTLS")
''')])
seeded("a5-true-without-wrap", ["C10"], "A5", [(M, '''        try:
            # nsock = ssl.wrap_socket(self.sock, keyfile, certfile)
            nsock = context.wrap_socket(self.sock, server_hostname=self.srvaddr)
        except ssl.SSLError as e:
            raise Error("SSL error: %s" % str(e))''', '''        try:
            # nsock = ssl.wrap_socket(self.sock, keyfile, certfile)
            nsock = context.wrap_socket(self.sock, server_hostname=self.srvaddr)
        except ssl.SSLError as e:
            return True''')])
seeded("a6-no-reread", ["C10"], "A6", [(M, '''        self.__capabilities = {}
        self.__get_capabilities()
        return True''', '''        self.__capabilities = {}
        return True''')])
seeded("a6-no-clear", ["C10"], "A6", [(M, '''        self.__capabilities = {}
        self.__get_capabilities()
        return True''', '''        self.__get_capabilities()
        return True''')])
seeded("a6-no-buffer-reset", ["C10"], "A6", [(M, '''        self.__read_buffer = b""
        self.__capabilities = {}''', '''        self.__capabilities = {}''')])
seeded("a7-mechanism-called-elsewhere", ["C10"], "A7", [(M, '''    def logout(self):''', '''    def relogin(self, login, password):
        return self._plain_authentication(login.encode("utf-8"), password.encode("utf-8"))

    def logout(self):''')])

benign("c10-guard-early-raise", ["C10"], [(M, '''        if cls.authenticated:
            return meth(cls, *args, **kwargs)
        raise Error("Authentication required")''', '''        if not cls.authenticated:
            raise Error("Authentication required")
        return meth(cls, *args, **kwargs)''')])
benign("c10-return-compare", ["C10", "C09"], [(M, '''        code, data = self.__send_command("DELETESCRIPT", [name.encode("utf-8")])
        if code == "OK":
            return True
        return False''', '''        code, data = self.__send_command("DELETESCRIPT", [name.encode("utf-8")])
        return code == "OK"''')])
benign("c10-new-guarded-method", ["C10"], [(M, '''    @authentication_required
    def setactive(''', '''    @authentication_required
    def purge(self, name: str) -> bool:
        code, data = self.__send_command("DELETESCRIPT", [name.encode("utf-8")])
        return code == "OK"

    @authentication_required
    def setactive(''')])
benign("c10-noop-method", ["C10"], [(M, '''    def logout(self):''', '''    def noop(self):
        code, data = self.__send_command("NOOP")
        return code == "OK"

    def logout(self):''')])
benign("c10-connect-restructured", ["C10"], [(M, '''        if starttls and not self.__starttls():
            return False
        if self.__authenticate(login, password, authz_id, authmech):
            return True
        return False''', '''        if starttls:
            if not self.__starttls():
                return False
        return self.__authenticate(login, password, authz_id, authmech)''')])
benign("c10-debug-prints", ["C10"], [(M, '''        self.sock = nsock
''', '''        self.sock = nsock
        self.__dprint("TLS established")
''')])

# --------------------------------------------------------------------------- C05
seeded("m1-peek-recv", ["C05", "C15"], "M1", [(M, '''    def logout(self):''', '''    def pending(self):
        return self.sock.recv(1)

    def logout(self):''')])
seeded("m2-buffer-cleared-in-sender", ["C05", "C15"], "M2", [(M, '''        tosend = name.encode("utf-8")
''', '''        tosend = name.encode("utf-8")
        self.__read_buffer = b""
''')], "drops pipelined bytes; invisible with one reply per recv")
seeded("m2-buffer-read-in-operation", ["C05", "C15"], "M2", [(M, '''        code, data = self.__send_command("DELETESCRIPT", [name.encode("utf-8")])''', '''        code, data = self.__send_command("DELETESCRIPT", [name.encode("utf-8")])
        if len(self.__read_buffer):
            self.__read_buffer = self.__read_buffer[2:]''')])
seeded("m3-single-recv", ["C05"], "M3", [(M, '''        while size:
            try:
                data = self.sock.recv(size)
            except (socket.timeout, ssl.SSLError):
                raise Error("Failed to read %d bytes from the server" % size)
            if not len(data):
                raise Error("Connection closed by server")
            buf += data
            size -= len(data)
''', '''        if size:
            try:
                data = self.sock.recv(size)
            except (socket.timeout, ssl.SSLError):
                raise Error("Failed to read %d bytes from the server" % size)
            buf += data
''')], "the pre-fix shape; suite passes")
seeded("m3-request-read-size", ["C05"], "M3", [(M, '''                data = self.sock.recv(size)
            except (socket.timeout, ssl.SSLError):
                raise Error("Failed to read %d bytes''', '''                data = self.sock.recv(self.read_size)
            except (socket.timeout, ssl.SSLError):
                raise Error("Failed to read %d bytes''')], "over-reads into the next reply")
seeded("m3-buffer-skipped", ["C05"], "M3", [(M, '''        buf = b""
        if len(self.__read_buffer):
            limit = size if size <= len(self.__read_buffer) else len(self.__read_buffer)
            buf = self.__read_buffer[:limit]
            self.__read_buffer = self.__read_buffer[limit:]
            size -= limit
''', '''        buf = b""
''')])
seeded("m4-break-after-first-recv", ["C05"], "M4", [(M, '''                self.__read_buffer += nval
            except (socket.timeout, ssl.SSLError):''', '''                self.__read_buffer += nval
                if len(nval) < self.read_size:
                    ret = self.__read_buffer
                    self.__read_buffer = b""
                    break
            except (socket.timeout, ssl.SSLError):''')], "returns a partial line when the segment is short")
seeded("m4-rest-offset", ["C05"], "M4", [(M, "self.__read_buffer = self.__read_buffer[pos + len(CRLF) :]", "self.__read_buffer = self.__read_buffer[pos + 1 :]")])
seeded("m4-timeout-swallowed", ["C05"], "M4", [(M, '''            except (socket.timeout, ssl.SSLError):
                raise Error("Failed to read data from the server")''', '''            except (socket.timeout, ssl.SSLError):
                break''')])
seeded("m5-size-plus-one", ["C05"], "M5", [(M, "resp += self.__read_block(inst.value)", "resp += self.__read_block(inst.value + 1)")])
seeded("m5-literal-size-from-len", ["C05"], "M5", [(M, "raise Literal(int(m.group(1)))", "raise Literal(len(m.group(1)))")])
seeded("m5-size-pattern-loose", ["C05"], "M5", [(M, r'''re.compile(rb"\{(\d+)\+?\}")''', r'''re.compile(rb"\{(\w*)\+?\}")''')])

benign("c05-while-len", ["C05"], [(M, '''        while size:
            try:
                data = self.sock.recv(size)
            except (socket.timeout, ssl.SSLError):
                raise Error("Failed to read %d bytes from the server" % size)
            if not len(data):
                raise Error("Connection closed by server")
            buf += data
            size -= len(data)
''', '''        total = len(buf) + size
        while len(buf) < total:
            try:
                data = self.sock.recv(total - len(buf))
            except (socket.timeout, ssl.SSLError):
                raise Error("Failed to read %d bytes from the server" % size)
            if not data:
                raise Error("Connection closed by server")
            buf += data
''')], "other accepted loop idiom")
benign("c05-crlf-const-2", ["C05"], [(M, "self.__read_buffer = self.__read_buffer[pos + len(CRLF) :]", "self.__read_buffer = self.__read_buffer[pos + 2 :]")])
benign("c05-buffer-reset-on-connect", ["C05", "C15"], [(M, '''        self.authenticated = False
        self.__capabilities = {}
        self.__read_buffer = b""
''', '''        self.__read_buffer = b""
        self.authenticated = False
        self.__capabilities = {}
''')], "order of the three independent resets")
benign("c05-size-pattern-digits-class", ["C05"], [(M, r'''re.compile(rb"\{(\d+)\+?\}")''', r'''re.compile(rb"\{([0-9]+)\+?\}")''')])

# --------------------------------------------------------------------------- C09
seeded("q1-setactive-inverted", ["C09"], "Q1", [(M, '''        code, data = self.__send_command("SETACTIVE", [scriptname.encode("utf-8")])
        if code == "OK":
            return True
        return False''', '''        code, data = self.__send_command("SETACTIVE", [scriptname.encode("utf-8")])
        if code == "NO":
            return True
        return False''')], "no NO reply in the suite; OK replies... this one breaks test_setactive? (kept as checker test only)")
seeded("q1-putscript-always-true", ["C09"], "Q1", [(M, '''        code, data = self.__send_command("PUTSCRIPT", [name.encode("utf-8"), bcontent])
        if code == "OK":
            return True
        return False''', '''        code, data = self.__send_command("PUTSCRIPT", [name.encode("utf-8"), bcontent])
        return True''')], "suite has no NO reply")
seeded("q1-getscript-returns-on-no", ["C09"], "Q1", [(M, '''        if code == "OK":
            lines = content.splitlines()''', '''        if code is not None:
            lines = content.splitlines()''')])
seeded("q1-listscripts-no-ignored", ["C09"], "Q1", [(M, '''        code, data, listing = self.__send_command("LISTSCRIPTS", withcontent=True)
        if code == "NO":
            return None''', '''        code, data, listing = self.__send_command("LISTSCRIPTS", withcontent=True)
        if code == "no":
            return None''')])
seeded("q1-havespace-raises-on-no", ["C09"], "Q1", [(M, '''            "HAVESPACE", [scriptname.encode("utf-8"), scriptsize]
        )
        if code == "OK":
            return True
        return False''', '''            "HAVESPACE", [scriptname.encode("utf-8"), scriptsize]
        )
        if code == "OK":
            return True
        raise Error("no space")''')])
seeded("q2-status-atoms-extended", ["C09"], "Q2", [(M, r'''re.compile(rb"(OK|NO|BYE)\s*(.+)?")''', r'''re.compile(rb"(OK|NO|BYE|BAD)\s*(.+)?")''')])
seeded("q2-bye-not-raised", ["C09"], "Q2", [(M, '''                if m.group(1) == b"BYE":
                    raise Error("Connection closed by server")
''', '')])
seeded("q2-no-skips-parser", ["C09"], "Q2", [(M, '''                if m.group(1) == b"NO":
                    self.__parse_error(m.group(2))
''', '''                if m.group(1) == b"NO" and m.group(2) is not None:
                    self.__parse_error(m.group(2))
''')], "errcode/errmsg keep stale values on a bare NO")
seeded("q2-search-instead-of-match", ["C09"], "Q2", [(M, "m = self.__respcode_expr.match(ret)", "m = self.__respcode_expr.search(ret)")])
seeded("q3-none-guard-dropped", ["C09"], "Q3", [(M, '''        if text is None:
            text = b""
        m = self.__error_expr.match(text)''', '''        m = self.__error_expr.match(text)''')], "pre-fix behaviour: bare NO -> TypeError")
seeded("q3-errcode-unguarded", ["C09"], "Q3", [(M, '''        if m.group(1) is not None:
            self.errcode = m.group(1).strip(b"()")
        else:
            self.errcode = b""
''', '''        self.errcode = m.group(1).strip(b"()")
''')])
seeded("q4-text-mandatory-again", ["C09"], "Q4", [(M, r'''re.compile(rb'(\([^)]+\))?\s*(".*"|\{\d+\+?\})?')''', r'''re.compile(rb'(\([^)]+\))?\s*(".*"|\{\d+\+?\})')''')], "NO (CODE) -> AttributeError on None match")
seeded("q4-errmsg-not-reset", ["C09"], "Q4", [(M, '''        if m.group(2) is None:
            self.errmsg = b""
            return''', '''        if m.group(2) is None:
            return''')], "stale errmsg from the previous failure")
seeded("q5-errmsg-from-ok-data", ["C09"], "Q5", [(M, '''        code, data = self.__send_command("SETACTIVE", [scriptname.encode("utf-8")])''', '''        code, data = self.__send_command("SETACTIVE", [scriptname.encode("utf-8")])
        self.errmsg = data''')])

benign("c09-if-no-return-false", ["C09"], [(M, '''        code, data = self.__send_command("SETACTIVE", [scriptname.encode("utf-8")])
        if code == "OK":
            return True
        return False''', '''        code, data = self.__send_command("SETACTIVE", [scriptname.encode("utf-8")])
        if code == "NO":
            return False
        return True''')])
benign("c09-status-pattern-noncapturing-rewrite", ["C09"], [(M, r'''re.compile(rb"(OK|NO|BYE)\s*(.+)?")''', r'''re.compile(rb"(BYE|NO|OK)\s*(.+)?")''')])
benign("c09-ifexp-none-guard", ["C09"], [(M, '''        if text is None:
            text = b""
        m = self.__error_expr.match(text)''', '''        m = self.__error_expr.match(text if text is not None else b"")''')])

# --------------------------------------------------------------------------- C08
seeded("w1-foreign-send", ["C08", "C15"], "W1", [(M, '''    def logout(self):''', '''    def raw(self, line: bytes):
        self.sock.sendall(line + CRLF)

    def logout(self):''')])
seeded("w1-no-crlf", ["C08"], "W1", [(M, "self.sock.sendall(tosend + CRLF)", "self.sock.sendall(tosend + b\"\\n\")")])
seeded("w2-escape-dropped", ["C08"], "W2", [(M, '''                    a = a.replace(b"\\\\", b"\\\\\\\\").replace(b'"', b'\\\\"')
''', '')], "the pre-fix behaviour")
seeded("w2-escape-order-swapped", ["C08"], "W2", [(M, '''a.replace(b"\\\\", b"\\\\\\\\").replace(b'"', b'\\\\"')''', '''a.replace(b'"', b'\\\\"').replace(b"\\\\", b"\\\\\\\\")''')], "a\"b -> a\\\\\"b : the quote is unescaped again")
seeded("w2-only-quote-escaped", ["C08"], "W2", [(M, '''a.replace(b"\\\\", b"\\\\\\\\").replace(b'"', b'\\\\"')''', '''a.replace(b'"', b'\\\\"')''')])
seeded("w3-literal-by-content", ["C08"], "W3", [(M, '''            if isinstance(a, LiteralArgument):
                ret += [a]
                continue''', '''            if isinstance(a, bytes) and self.__size_expr.match(a):
                ret += [a]
                continue''')], "the pre-fix behaviour")
seeded("w3-marker-built-in-operation", ["C08"], "W3", [(M, '''        code, data = self.__send_command("SETACTIVE", [scriptname.encode("utf-8")])''', '''        code, data = self.__send_command("SETACTIVE", [LiteralArgument(scriptname.encode("utf-8"))])''')])
seeded("w4-length-of-text", ["C08"], "W4", [(M, '''return LiteralArgument(b"{%d+}%s%s" % (len(bcontent), CRLF, bcontent))''', '''return LiteralArgument(b"{%d+}%s%s" % (len(content), CRLF, bcontent))''')], "character count instead of octet count; equal for the ASCII script of the suite")
seeded("w4-synchronising-literal", ["C08"], "W4", [(M, '''return LiteralArgument(b"{%d+}%s%s" % (len(bcontent), CRLF, bcontent))''', '''return LiteralArgument(b"{%d}%s%s" % (len(bcontent), CRLF, bcontent))''')])
seeded("w4-latin1", ["C08"], "W4", [(M, '''bcontent: bytes = content.encode("utf-8")''', '''bcontent: bytes = content.encode("latin-1", "replace")''')])
seeded("w5-wrong-verb", ["C08"], "W5", [(M, '''self.__send_command("DELETESCRIPT", [name.encode("utf-8")])''', '''self.__send_command("DELETSCRIPT", [name.encode("utf-8")])''')])
seeded("w5-size-as-bytes", ["C08"], "W5", [(M, '''"HAVESPACE", [scriptname.encode("utf-8"), scriptsize]''', '''"HAVESPACE", [scriptname.encode("utf-8"), str(scriptsize).encode("utf-8")]''')], "number is sent quoted")
seeded("w5-name-not-encoded-utf8", ["C08"], "W5", [(M, '''self.__send_command("SETACTIVE", [scriptname.encode("utf-8")])''', '''self.__send_command("SETACTIVE", [scriptname.encode("ascii", "ignore")])''')])
seeded("w5-double-send", ["C08", "C15"], {"C08": "W5", "C15": "K2"}, [(M, '''        code, data = self.__send_command("SETACTIVE", [scriptname.encode("utf-8")])''', '''        self.__send_command("SETACTIVE", [b""])
        code, data = self.__send_command("SETACTIVE", [scriptname.encode("utf-8")])''')])
seeded("w6-control-chars-quoted", ["C08"], "W6", [(M, '''                if b"\\r" in a or b"\\n" in a or b"\\0" in a:''', '''                if b"\\r\\n" in a:''')], "a lone LF or NUL is still put inside quotes")

benign("c08-escape-helper", ["C08"], [(M, '''                    a = a.replace(b"\\\\", b"\\\\\\\\").replace(b'"', b'\\\\"')
                    ret += [b'"' + a + b'"']''', '''                    ret += [b'"' + a.replace(b"\\\\", b"\\\\\\\\").replace(b'"', b'\\\\"') + b'"']''')])
T = "sievelib/tools.py"
_C08_HELPER_CALL = (M, '''                    a = a.replace(b"\\\\", b"\\\\\\\\").replace(b'"', b'\\\\"')
                    ret += [b'"' + a + b'"']''', '''                    ret += [tools.quote_string(a)]''')
benign("c08-quote-helper-in-tools", ["C08"], [_C08_HELPER_CALL, (T, '''from typing import List
''', '''import re
from typing import List

QUOTED_SPECIALS = re.compile(rb'(["\\\\])')


def quote_string(value: bytes) -> bytes:
    return b'"' + QUOTED_SPECIALS.sub(rb"\\\\\\1", value) + b'"'
''')], "quoting moved to a helper that escapes every special character separately")
seeded("w2-quote-helper-escapes-runs", ["C08"], "W2", [_C08_HELPER_CALL, (T, '''from typing import List
''', '''import re
from typing import List

QUOTED_SPECIALS = re.compile(rb'(["\\\\]+)')


def quote_string(value: bytes) -> bytes:
    return b'"' + QUOTED_SPECIALS.sub(rb"\\\\\\1", value) + b'"'
''')], "one backslash per RUN of specials")
benign("c08-local-write-accumulator", ["C08", "C15", "C10", "C05"], [(M, '''        self.sock.sendall(tosend + CRLF)
        if extralines:
            for l in extralines:
                self.sock.sendall(l + CRLF)
''', '''        out = tosend + CRLF
        if extralines:
            for l in extralines:
                out += l + CRLF
        self.sock.sendall(out)
''')], "command and extra lines written with one sendall from a local buffer")
seeded("w1-instance-write-buffer", ["C08", "C15"], "W1", [(M, '''        self.sock.sendall(tosend + CRLF)
        if extralines:
            for l in extralines:
                self.sock.sendall(l + CRLF)
''', '''        self.wbuf += tosend + CRLF
        if extralines:
            for l in extralines:
                self.wbuf += l + CRLF
        self.sock.sendall(self.wbuf)
        self.wbuf = b""
'''), (M, '''        self.authenticated: bool = False
        self.errcode''', '''        self.authenticated: bool = False
        self.wbuf = b""
        self.errcode''')], "unsent bytes of a failed write are sent with the next command")
benign("c08-not-in-tests", ["C08"], [(M, '''                if b"\\r" in a or b"\\n" in a or b"\\0" in a:
                    # not representable as a quoted string
                    ret += [b"{%d+}%s%s" % (len(a), CRLF, a)]
                else:
                    a = a.replace(b"\\\\", b"\\\\\\\\").replace(b'"', b'\\\\"')
                    ret += [b'"' + a + b'"']''', '''                if b"\\r" not in a and b"\\n" not in a and b"\\0" not in a:
                    a = a.replace(b"\\\\", b"\\\\\\\\").replace(b'"', b'\\\\"')
                    ret += [b'"' + a + b'"']
                else:
                    ret += [b"{%d+}%s%s" % (len(a), CRLF, a)]''')])

# --------------------------------------------------------------------------- C15
seeded("k1-reply-not-read-without-args", ["C15"], "K1", [(M, '''        code, data, content = self.__read_response(nblines)

        if isinstance(code, bytes):''', '''        if not args and not withcontent and name == "LOGOUT":
            return (None, None)
        code, data, content = self.__read_response(nblines)

        if isinstance(code, bytes):''')], "LOGOUT's reply stays in the buffer for a reused connection object")
seeded("k1-double-read", ["C15"], "K1", [(M, '''        code, data, content = self.__read_response(nblines)

        if isinstance(code, bytes):''', '''        code, data, content = self.__read_response(nblines)
        if code is None:
            code, data, content = self.__read_response(nblines)

        if isinstance(code, bytes):''')])
seeded("k1-stray-reply-read", ["C15"], "K1", [(M, '''    def logout(self):''', '''    def drain(self):
        return self.__read_response()

    def logout(self):''')])
seeded("k1-operation-reads-line", ["C15"], "K1", [(M, '''        code, data = self.__send_command("SETACTIVE", [scriptname.encode("utf-8")])''', '''        code, data = self.__send_command("SETACTIVE", [scriptname.encode("utf-8")])
        if code == "NO":
            self.__read_line()''')])
seeded("k2-capability-twice", ["C15"], "K2", [(M, '''        code, data, capabilities = self.__send_command("CAPABILITY", withcontent=True)
        if code == "OK":''', '''        code, data, capabilities = self.__send_command("CAPABILITY", withcontent=True)
        if code == "NO":
            code, data, capabilities = self.__send_command("CAPABILITY", withcontent=True)
        if code == "OK":''')])
seeded("k4-peek-without-consume", ["C15"], "K4", [(M, '''                ret = self.__read_buffer[:pos]
                self.__read_buffer = self.__read_buffer[pos + len(CRLF) :]
                break''', '''                ret = self.__read_buffer[:pos]
                if ret.startswith(b"BYE"):
                    break
                self.__read_buffer = self.__read_buffer[pos + len(CRLF) :]
                break''')])
benign("c15-sender-early-return-same", ["C15"], [(M, '''        if withcontent:
            return (code, data, content)
        return (code, data)''', '''        return (code, data, content) if withcontent else (code, data)''')])

# --------------------------------------------------------------------------- C14
seeded("r1-delete-before-put", ["C14"], "R1", [(M, '''        if not self.putscript(newname, oldscript):
            return False
        if active_script == oldname:
            if not self.setactive(newname):
                return False
        if not self.deletescript(oldname):
            return False
        return True''', '''        if not self.deletescript(oldname):
            return False
        if not self.putscript(newname, oldscript):
            return False
        if active_script == oldname:
            if not self.setactive(newname):
                return False
        return True''')], "the all-OK test still passes")
seeded("r1-put-result-ignored", ["C14"], "R1", [(M, '''        if not self.putscript(newname, oldscript):
            return False
        if active_script''', '''        self.putscript(newname, oldscript)
        if active_script''')])
seeded("r1-setactive-result-ignored", ["C14"], "R1", [(M, '''            if not self.setactive(newname):
                return False''', '''            self.setactive(newname)''')])
seeded("r2-active-target-overwritten", ["C14"], "R2", [(M, "        if newname == active_script or newname in scripts:", "        if newname in scripts:")], "pre-fix behaviour")
seeded("r2-no-existence-test", ["C14"], "R2", [(M, '''        if newname == active_script or newname in scripts:
            self.errmsg = b"New script already exists"
            return False
''', '')])
seeded("r3-content-stripped", ["C14"], "R3", [(M, "if not self.putscript(newname, oldscript):", "if not self.putscript(newname, oldscript.strip()):")])
seeded("r3-none-content", ["C14"], "R3", [(M, '''        oldscript = self.getscript(oldname)
        if oldscript is None:
            return False
''', '''        oldscript = self.getscript(oldname)
''')])
seeded("r4-delete-new", ["C14"], "R4", [(M, "if not self.deletescript(oldname):", "if not self.deletescript(newname):")])
seeded("r4-name-normalised", ["C14"], "R4", [(M, '''        listing = self.listscripts()
        if listing is None:''', '''        newname = newname.strip()
        listing = self.listscripts()
        if listing is None:''')])
seeded("r5-unpack-none", ["C14"], "R5", [(M, '''        listing = self.listscripts()
        if listing is None:
            return False
        (active_script, scripts) = listing''', '''        (active_script, scripts) = self.listscripts()''')], "pre-fix behaviour")
seeded("r6-true-after-failed-delete", ["C14"], "R6", [(M, '''        if not self.deletescript(oldname):
            return False
        return True''', '''        self.deletescript(oldname)
        return True''')])
seeded("r7-emulation-always", ["C14"], "R7", [(M, '''        if "VERSION" in self.__capabilities:
            code, data = self.__send_command(
                "RENAMESCRIPT", [oldname.encode("utf-8"), newname.encode("utf-8")]
            )
            if code == "OK":
                return True
            return False
''', '''        if "VERSION" in self.__capabilities:
            code, data = self.__send_command(
                "RENAMESCRIPT", [oldname.encode("utf-8"), newname.encode("utf-8")]
            )
            if code == "OK":
                return True
''')], "falls through to the emulation after a native NO")
seeded("r7-args-swapped", ["C14"], "R7", [(M, '''"RENAMESCRIPT", [oldname.encode("utf-8"), newname.encode("utf-8")]''', '''"RENAMESCRIPT", [newname.encode("utf-8"), oldname.encode("utf-8")]''')])
benign("c14-emulation-in-helper", ["C14", "C09", "C10", "C15"], [(M, '''            return False

        listing = self.listscripts()
        if listing is None:
            return False
        (active_script, scripts) = listing''', '''            return False
        return self._emulate_rename(oldname, newname)

    @authentication_required
    def _emulate_rename(self, oldname: str, newname: str) -> bool:
        listing = self.listscripts()
        if listing is None:
            return False
        (active_script, scripts) = listing''')], "extract-method: the emulation moved to a guarded helper")
seeded("r3-empty-script-is-failure", ["C14", "C09"], "R3", [(M, '''        if oldscript is None:
            return False''', '''        if not oldscript:
            return False''')], "a script with empty content cannot be renamed")
benign("c14-not-in-form", ["C14"], [(M, '''        if newname == active_script or newname in scripts:
            self.errmsg = b"New script already exists"
            return False
        oldscript = self.getscript(oldname)''', '''        if not (newname != active_script and newname not in scripts):
            self.errmsg = b"New script already exists"
            return False
        oldscript = self.getscript(oldname)''')])
benign("c14-nested-success", ["C14"], [(M, '''        if not self.deletescript(oldname):
            return False
        return True''', '''        return self.deletescript(oldname)''')])

# --------------------------------------------------------------------------- C16
seeded("u1-order-changed", ["C16"], "U1", [(M, '''SUPPORTED_AUTH_MECHS = ["DIGEST-MD5", "PLAIN", "LOGIN", "OAUTHBEARER"]''', '''SUPPORTED_AUTH_MECHS = ["DIGEST-MD5", "LOGIN", "PLAIN", "OAUTHBEARER"]''')])
seeded("u2-method-renamed", ["C16"], "U2", [(M, "    def _login_authentication(", "    def _login_auth(")], "LOGIN is never executed by the suite")
seeded("u3-named-mech-falls-back", ["C16"], "U3", [(M, '''        for mech in mech_list:
            if mech not in srv_mechanisms:
                continue''', '''        if mech_list[0] not in srv_mechanisms:
            mech_list = SUPPORTED_AUTH_MECHS
        for mech in mech_list:
            if mech not in srv_mechanisms:
                continue''')], "caller names PLAIN, server lacks it: another mechanism is tried")
seeded("u3-tries-next-on-failure", ["C16"], "U3", [(M, '''                self.authenticated = True
                return True
            return False
''', '''                self.authenticated = True
                return True
''')], "a refused PLAIN is followed by LOGIN with the same password")
seeded("u3-ignores-server-list", ["C16"], "U3", [(M, '''            if mech not in srv_mechanisms:
                continue
''', '')])
seeded("u3-flag-on-failure", ["C16", "C10"], {"C16": "U3", "C10": "A3"}, [(M, '''                self.authenticated = True
                return True
            return False''', '''                self.authenticated = True
                return True
            self.authenticated = True
            return False''')])
seeded("u4-plain-order", ["C16"], "U4", [(M, '''b"\\0".join([authz_id, login, password])''', '''b"\\0".join([login, authz_id, password])''')], "authzid empty in the suite")
seeded("u4-login-lines-swapped", ["C16"], "U4", [(M, '''            b'"%s"' % base64.b64encode(login),
            b'"%s"' % base64.b64encode(password),''', '''            b'"%s"' % base64.b64encode(password),
            b'"%s"' % base64.b64encode(login),''')])
seeded("u4-oauth-missing-ctrl-a", ["C16"], "U4", [(M, '''password + b"\\001\\001"''', '''password + b"\\001"''')])
seeded("u4-credentials-swapped-at-dispatch", ["C16"], "U4", [(M, '''                login.encode("utf-8"),
                password.encode("utf-8"),
                authz_id.encode("utf-8"),''', '''                login.encode("utf-8"),
                authz_id.encode("utf-8"),
                password.encode("utf-8"),''')])
seeded("u4-latin1-credentials", ["C16"], "U4", [(M, '''                login.encode("utf-8"),
                password.encode("utf-8"),''', '''                login.encode("utf-8"),
                password.encode("latin-1", "replace"),''')])
seeded("u5-escape-dropped", ["C16"], "U5", [(M, '''        login = login.replace(b"=", b"=3D").replace(b",", b"=2C")
''', '')], "pre-fix behaviour")
seeded("u5-escape-order", ["C16"], "U4", [(M, '''login.replace(b"=", b"=3D").replace(b",", b"=2C")''', '''login.replace(b",", b"=2C").replace(b"=", b"=3D")''')], "comma -> =2C -> =3D2C")
seeded("u6-new-py2-call", ["C16"], "U6", [(M, '''        params = base64.b64encode(b"\\0".join([authz_id, login, password]))''', '''        params = base64.b64encode(b"\\0".join([authz_id, login, password]))
        params = unicode(params)''')])
benign("c16-plain-concat", ["C16"], [(M, '''b"\\0".join([authz_id, login, password])''', '''authz_id + b"\\0" + login + b"\\0" + password''')])
benign("c16-explicit-dispatch-table", ["C16", "C10"], [(M, '''            if auth_method(
                login.encode("utf-8"),
                password.encode("utf-8"),
                authz_id.encode("utf-8"),
            ):
                self.authenticated = True
                return True
            return False''', '''            ok = auth_method(
                login.encode("utf-8"),
                password.encode("utf-8"),
                authz_id.encode("utf-8"),
            )
            if ok:
                self.authenticated = True
            return ok''')])

# --------------------------------------------------------------------------- C17
seeded("d1-size-test-in-listing", ["C17"], "D1", [(M, '''        for l in listing.splitlines():
            m = re.match''', '''        for l in listing.splitlines():
            if self.__size_expr.match(l):
                continue
            m = re.match''')], "pre-fix behaviour")
seeded("d1-status-test-in-getscript", ["C17"], "D1", [(M, '''            lines = content.splitlines()
            return''', '''            lines = [x for x in content.splitlines() if not self.__respcode_expr.match(x)]
            return''')], "drops script lines starting with OK/NO/BYE")
NAMEPAT = 'rb\'"((?:[^"\\\\]|\\\\.)*)"\\s*(.*)\''
seeded("d2-name-pattern-no-escapes", ["C17"], "D2", [(M, NAMEPAT, 'rb\'"([^"]*)"\\s*(.*)\'')], "pre-fix language")
seeded("d2-no-unescape", ["C17"], "D2", [(M, '''script = re.sub(rb"\\\\(.)", rb"\\1", m.group(1)).decode("utf-8")''', '''script = m.group(1).decode("utf-8")''')])
seeded("d4-strip-lines", ["C17"], "D4", [(M, '''return "\\n".join([line.decode("utf-8") for line in lines])''', '''return "\\n".join([line.strip().decode("utf-8") for line in lines])''')], "indentation of the script is lost")
seeded("d4-skip-blank-lines", ["C17"], "D4", [(M, '''return "\\n".join([line.decode("utf-8") for line in lines])''', '''return "\\n".join([line.decode("utf-8") for line in lines if line])''')])
seeded("d4-drop-first-line", ["C17"], "D4", [(M, '''            lines = content.splitlines()
            return''', '''            lines = content.splitlines()[1:]
            return''')])
seeded("d5-active-anywhere", ["C17"], "D5", [(M, "if self.__active_expr.match(m.group(2)):", "if self.__active_expr.search(l):")], "a script called \"inactive\" becomes the active one")
benign("c17-name-pattern-equivalent", ["C17"], [(M, NAMEPAT, 'rb\'"((?:\\\\.|[^"\\\\])*)"[ \\t]*(.*)\'')])

# --------------------------------------------------------------------------- C02
seeded("x1-number-can-be-empty", ["C02"], "X1", [(P, '''(b"number", rb"[0-9]+[KMGkmg]?"),''', '''(b"number", rb"[0-9]*[KMGkmg]?"),''')], "every test script still lexes the same; '@' now hangs")
seeded("x1-whitespace-star", ["C02"], "X1", [(P, '''re.compile(rb"\\s+", re.M)''', '''re.compile(rb"\\s*", re.M)''')])
seeded("x1-token-pos-not-advanced", ["C02"], "X1", [(P, '''            yield (m.lastgroup, m.group(m.lastgroup))
            self.pos += len(m.group(0))''', '''            yield (m.lastgroup, m.group(m.lastgroup))
            if m.lastgroup != "bracket_comment":
                self.pos += len(m.group(0))''')])
seeded("x1-match-not-at-pos", ["C02"], "X1", [(P, "m = self.regexp.match(text, self.pos)", "m = self.regexp.match(text)")])
seeded("x2-unconditional-replay", ["C02", "C18"], "X2", [(P, '''            self.__curcommand.reassign_arguments()
            if not self.__curcommand.iscomplete():
                # nothing to reassign: replaying the token would loop forever
                return False
''', '''            self.__curcommand.reassign_arguments()
''')], "pre-fix behaviour; suite passes")
seeded("x2-rewind-two", ["C02", "C18"], "X2", [(P, "            # rewind lexer\n            self.lexer.pos -= 1\n", "            # rewind lexer\n            self.lexer.pos -= 2\n")])
seeded("x2-rewind-two-in-test-list", ["C02", "C18"], "X2", [(P, "                return False\n            self.lexer.pos -= 1\n            return self.__check_command_completion(testsemicolon=False)\n", "                return False\n            self.lexer.pos -= 2\n            return self.__check_command_completion(testsemicolon=False)\n")], "the replay after a settled test skips back over two bytes")
seeded("p17-pre-fix-shape", ["C01", "C03"], "P17", [(P, '''        if (
            ttype in ["comma", "right_parenthesis"]
            and self.__curcommand.non_deterministic_args
            and not self.__curcommand.iscomplete()
        ):
            # a test whose first argument is optional (hasflag "x") ends
            # here: settle its arguments, then read the token again for
            # the enclosing test list
            self.__curcommand.reassign_arguments()
            if not self.__curcommand.iscomplete():
                return False
            self.lexer.pos -= 1
            return self.__check_command_completion(testsemicolon=False)

''', "")], "the shape before 0ff9c98: `if anyof(hasflag \"x\", true)` rejected")
seeded("p17-comma-only", ["C01", "C03"], "P17", [(P, '''            ttype in ["comma", "right_parenthesis"]
            and self.__curcommand.non_deterministic_args
            and not self.__curcommand.iscomplete()''', '''            ttype in ["comma"]
            and self.__curcommand.non_deterministic_args
            and not self.__curcommand.iscomplete()''')], "`if anyof(hasflag \"x\")` rejected")
seeded("x2-foreign-reset", ["C02", "C18"], "X2", [(P, '''        if ttype == "left_parenthesis":
            self.__push_expected_bracket("right_parenthesis", b")")''', '''        if ttype == "left_parenthesis":
            self.lexer.pos = self.lexer.pos
            self.__push_expected_bracket("right_parenthesis", b")")''')])
seeded("x3-parent-walk-broken", ["C02"], "X3", [(P, '''        while self.__curcommand:
            self.__curcommand = self.__curcommand.parent
            if not self.__curcommand:
                break''', '''        while self.__curcommand:
            if not self.__curcommand.iscomplete():
                self.__curcommand = self.__curcommand.parent
            if not self.__curcommand:
                break''')])
seeded("x3-counting-loop-stuck", ["C02"], "X3", [(C, '''                break

            pos += 1
''', '''                break

            pos += 0 if curarg.get("skip") else 1
''')])
seeded("x4-foreign-exception", ["C02"], "X4", [(C, '''            raise BadValue(self.curarg["name"], avalue)''', '''            raise ValueError("bad value %s" % avalue)''')], "no test has a bad tag parameter of that kind... (checker test)")
seeded("x4-funnel-narrowed", ["C02"], "X4", [(P, "except (ParseError, CommandError, UnicodeDecodeError) as e:", "except (ParseError, UnicodeDecodeError) as e:")])
seeded("x4-exception-reparented", ["C02"], "X4", [(C, "class ExtensionNotLoaded(CommandError):", "class ExtensionNotLoaded(Exception):")])
seeded("x5-funnel-without-unicode", ["C02"], "X5", [(P, "except (ParseError, CommandError, UnicodeDecodeError) as e:", "except (ParseError, CommandError) as e:")], "pre-fix behaviour")
seeded("x5-decode-in-handler", ["C02"], "X5", [(P, '''            self.error = "line %d: %s" % (self.error_pos[0], str(e))''', '''            self.error = "line %d: %s near %s" % (self.error_pos[0], str(e), tvalue.decode())''')])
seeded("x6-unguarded-last", ["C02"], "X6", [(P, "prevcmd = self.result[-1] if len(self.result) != 0 else None", "prevcmd = self.result[-1]")], "`else { }` as first command: IndexError")
seeded("x6-byte-offset-as-index", ["C02"], "X6", [(P, '''                        tvalue.decode("utf-8", "replace"),
                        text[self.lexer.pos :].decode("utf-8", "replace")[:1],''', '''                        tvalue.decode("utf-8", "replace"),
                        text.decode("utf-8", "replace")[self.lexer.pos],''')], "pre-fix behaviour")
seeded("x7-require-unguarded", ["C02"], "X7", [(C, '''        if "capabilities" not in self.arguments:
            return
''', '')], "pre-fix behaviour")
seeded("x8-lookup-any-name", ["C02", "C01"], {"C02": "X8", "C01": "T4"}, [(C, '''    condition = (
        cname not in gl
        or not isinstance(gl[cname], type)
        or not issubclass(gl[cname], Command)
        or not hasattr(gl[cname], "args_definition")
    )''', '''    condition = cname not in gl''')], "pre-fix behaviour")
seeded("x8-new-abstract-class", ["C02", "C01"], {"C02": "X8", "C01": "T4"}, [(C, '''    condition = (
        cname not in gl
        or not isinstance(gl[cname], type)
        or not issubclass(gl[cname], Command)
        or not hasattr(gl[cname], "args_definition")
    )''', '''    condition = (
        cname not in gl
        or not isinstance(gl[cname], type)
        or not issubclass(gl[cname], Command)
    )'''), (C, '''class StopCommand(ActionCommand):''', '''class FilterCommand(ActionCommand):
    """Base class for actions that file a message."""


class StopCommand(ActionCommand):''')], "`filter;` -> AttributeError")
seeded("x9-format-arity", ["C02"], "X9", [(P, '''raise ParseError("unexpected closing bracket %s (none opened)" % (tvalue,))''', '''raise ParseError("unexpected closing bracket %s (none opened, %s)" % (tvalue,))''')], "only raised for a stray closing bracket")
seeded("x10-slot-called-when-none", ["C02"], "X10", [(P, '''        if self.__cstate(ttype, tvalue):
            return True

        if ttype == "left_cbracket":''', '''        if ttype == "left_cbracket":''')  , (P, '''        if self.__cstate is None:
            if ttype == "right_cbracket":''', '''        if self.__cstate(ttype, tvalue):
            return True
        if self.__cstate is None:
            if ttype == "right_cbracket":''')])
seeded("x11-handler-returns-none", ["C02"], "X11", [(P, '''            self.error = "line %d: %s" % (self.error_pos[0], str(e))
            return False''', '''            self.error = "line %d: %s" % (self.error_pos[0], str(e))
            return''')])
seeded("x11-error-pos-pair", ["C02", "C18"], {"C02": "X11", "C18": "Z3"}, [(P, '''                self.lexer.curcolno(),
                len(tvalue),
            )''', '''                self.lexer.curcolno(),
            )''')])
seeded("l7-quadratic-multiline", ["C02"], "L7", [(P, '''(b"multiline", rb"text:[\\s\\S]*?\\n\\.\\r?$"),''', '''(b"multiline", rb"text:[\\s\\S]*?[\\r\\n]+\\.\\r?$"),''')])
benign("c02-pos-from-end", ["C02", "C18"], [(P, "            self.pos += len(m.group(0))", "            self.pos = m.end()")])
benign("c02-new-parse-error-subclass", ["C02"], [(P, '''class Lexer:''', '''class LexError(ParseError):
    """Lexical error."""


class Lexer:'''), (P, '''raise ParseError(f"unknown token {token}")''', '''raise LexError(f"unknown token {token}")''')])
benign("c02-extra-safe-decode", ["C02"], [(P, '''        if ttype in ["number", "tag"]:
            return self.__curcommand.check_next_arg(ttype, tvalue.decode("ascii"))''', '''        if ttype in ["number", "tag"]:
            return self.__curcommand.check_next_arg(ttype, tvalue.decode("utf-8"))''')])

# --------------------------------------------------------------------------- C07
seeded("e1-body-extension-dropped", ["C07", "C01"], {"C07": "E1", "C01": "T1"}, [(C, '''    extension = "body"

    def args_as_tuple(self):
        """Return arguments as a list."""
        result = ("body",)''', '''    def args_as_tuple(self):
        """Return arguments as a list."""
        result = ("body",)''')], "no negative test for body")
seeded("e1-create-unbound", ["C07", "C01"], {"C07": "E1", "C01": "T1"}, [(C, '''            "values": [":create"],
            "required": False,
            "extension": "mailbox",''', '''            "values": [":create"],
            "required": False,''')])
seeded("e1-regex-moved-to-values", ["C07", "C01"], {"C07": "E1", "C01": "T1"}, [(C, '''    "values": [":is", ":contains", ":matches"],
    "extension_values": {
        ":count": "relational",
        ":value": "relational",
        ":regex": "regex",
    },''', '''    "values": [":is", ":contains", ":matches", ":regex"],
    "extension_values": {
        ":count": "relational",
        ":value": "relational",
    },''')])
seeded("e1-seconds-wrong-extension", ["C07", "C01"], {"C07": "E1", "C01": "T1"}, [(C, '''"extension_values": {":seconds": "vacation-seconds"},''', '''"extension_values": {":seconds": "vacation"},''')])
seeded("e2-gate-after-return", ["C07"], "E2", [(C, '''    condition = (
        checkexists
        and gl[cname].extension
        and gl[cname].extension not in RequireCommand.loaded_extensions
    )
    if condition:
        raise ExtensionNotLoaded(gl[cname].extension)
    return gl[cname](parent)''', '''    if parent is not None:
        return gl[cname](parent)
    condition = (
        checkexists
        and gl[cname].extension
        and gl[cname].extension not in RequireCommand.loaded_extensions
    )
    if condition:
        raise ExtensionNotLoaded(gl[cname].extension)
    return gl[cname](parent)''')], "nested commands and tests skip the gate; the negative tests use top-level commands")
seeded("e2-gate-or", ["C07"], "E2", [(C, '''        and gl[cname].extension not in RequireCommand.loaded_extensions
    )
    if condition:
        raise ExtensionNotLoaded(gl[cname].extension)''', '''        and gl[cname].extension not in RequireCommand.loaded_extensions
        and len(RequireCommand.loaded_extensions) == 0
    )
    if condition:
        raise ExtensionNotLoaded(gl[cname].extension)''')], "any require opens every extension")
seeded("e3-store-before-gate", ["C07"], "E3", [(C, '''            if condition:
                ext = curarg.get("extension")
                condition = (
                    check_extension
                    and ext
                    and ext not in RequireCommand.loaded_extensions
                )
                if condition:
                    raise ExtensionNotLoaded(ext)''', '''            if condition:
                ext = curarg.get("extension")
                condition = (
                    check_extension
                    and ext
                    and self.nextargpos == 0
                    and ext not in RequireCommand.loaded_extensions
                )
                if condition:
                    raise ExtensionNotLoaded(ext)''')], "only a tag in first position is gated")
seeded("e4-value-gate-dropped", ["C07"], "E4", [(C, '''                condition = (
                    check_extension
                    and extension not in RequireCommand.loaded_extensions
                )
                if condition:
                    raise ExtensionNotLoaded(extension)
                return True''', '''                return True''')])
seeded("e4-optional-branch-flag-lost", ["C07"], "E4", [(C, '''            condition: bool = atype in curarg["type"] and self.__is_valid_value_for_arg(
                curarg, avalue, check_extension
            )''', '''            condition: bool = atype in curarg["type"] and self.__is_valid_value_for_arg(
                curarg, avalue, False
            )''')], "match types on optional slots are never gated")
seeded("e5-parser-disables-check", ["C07"], "E5", [(P, '''test = get_command_instance(tvalue.decode("ascii"), self.__curcommand)''', '''test = get_command_instance(tvalue.decode("ascii"), self.__curcommand, False)''')], "tests (envelope, body, date...) need no require")
seeded("e5-parser-arg-check-off", ["C07"], "E5", [(P, '''return self.__curcommand.check_next_arg(ttype, tvalue.decode("ascii"))''', '''return self.__curcommand.check_next_arg(ttype, tvalue.decode("ascii"), check_extension=ttype == "number")''')])
seeded("e6-registry-prefilled", ["C07", "C13"], {"C07": "E6", "C13": "H3"}, [(P, "        RequireCommand.loaded_extensions = []\n", '        RequireCommand.loaded_extensions = ["fileinto"]\n')])
seeded("e6-lookup-loads-extension", ["C07", "C13"], {"C07": "E6", "C13": "H1"}, [(C, '''    if condition:
        raise ExtensionNotLoaded(gl[cname].extension)
    return gl[cname](parent)''', '''    if condition:
        raise ExtensionNotLoaded(gl[cname].extension)
    if gl[cname].extension and not checkexists:
        RequireCommand.loaded_extensions.append(gl[cname].extension)
    return gl[cname](parent)''')], "factory use opens the extension for later parses")
seeded("e7-message-changed", ["C07"], "E7", [(C, '''return "extension '{}' not loaded".format(self.name)''', '''return "extension {} not loaded".format(self.name)''')])
seeded("e7-raise-names-command", ["C07"], "E7", [(C, '''    if condition:
        raise ExtensionNotLoaded(gl[cname].extension)''', '''    if condition:
        raise ExtensionNotLoaded(name)''')])
benign("c07-gate-early-return-form", ["C07"], [(C, '''    condition = (
        checkexists
        and gl[cname].extension
        and gl[cname].extension not in RequireCommand.loaded_extensions
    )
    if condition:
        raise ExtensionNotLoaded(gl[cname].extension)
    return gl[cname](parent)''', '''    if checkexists and gl[cname].extension:
        if gl[cname].extension not in RequireCommand.loaded_extensions:
            raise ExtensionNotLoaded(gl[cname].extension)
    return gl[cname](parent)''')])
benign("c07-new-extension-command", ["C07", "C01", "C02"], [(C, '''class DiscardCommand(ActionCommand):''', '''class EreportCommand(ActionCommand):
    extension = "ereport"
    args_definition = [{"name": "text", "type": ["string"], "required": True}]


class DiscardCommand(ActionCommand):''')])

# --------------------------------------------------------------------------- C13
seeded("h1-shared-table-edited", ["C13"], "H1", [(C, '''    def get_expected_first(self) -> List[str]:
        return ["left_parenthesis"]


class AnyofCommand(TestCommand):''', '''    def get_expected_first(self) -> List[str]:
        self.args_definition[0]["required"] = True
        return ["left_parenthesis"]


class AnyofCommand(TestCommand):''')])
seeded("h1-match-type-cache", ["C13"], "H1", [(C, '''        if "extension_values" in arg:
            extension = arg["extension_values"].get(value.lower())
            if extension:''', '''        if "extension_values" in arg:
            extension = arg["extension_values"].get(value.lower())
            if extension and not check_extension:
                arg.setdefault("values", []).append(value.lower())
            if extension:''')], "a factory call turns an extension value into a plain one for the rest of the process")
seeded("h1-module-cache", ["C13"], "H1", [(C, '''def get_command_instance(
    name: str, parent: Optional[Command] = None, checkexists: bool = True
) -> Command:''', '''_seen_commands: List[str] = []


def get_command_instance(
    name: str, parent: Optional[Command] = None, checkexists: bool = True
) -> Command:
    _seen_commands.append(name)''')])
seeded("h2-bracket-stack-not-reset", ["C13"], "H2", [(P, "        self.__expected_brackets = []\n        RequireCommand", "        RequireCommand")], "a script that ends inside a bracket poisons the next parse")
seeded("h2-stringlist-not-reset", ["C13"], "H2", [(P, "        self.__curstringlist = None\n", "")])
seeded("h2-reset-after-loop-start", ["C13"], "H2", [(P, '''        self.__reset_parser()
        try:
            ttype: str
            tvalue: bytes = b""
            for ttype, tvalue in self.lexer.scan(text):''', '''        try:
            ttype: str
            tvalue: bytes = b""
            for ttype, tvalue in self.lexer.scan(text):
                if self.lexer.pos == 0:
                    self.__reset_parser()''')], "leading whitespace: pos != 0 at the first token, state never reset")
seeded("h2-lexer-pos-kept", ["C13"], "H2", [(P, "        self.pos = 0\n        self.text = text", "        self.text = text")])
seeded("h3-registry-reset-dropped", ["C13", "C07"], {"C13": "H3", "C07": "E6"}, [(P, "        RequireCommand.loaded_extensions = []\n", "")], "suite creates a Parser per test but the list is class-level: order-dependent only")
seeded("h3-registry-reset-on-instance", ["C13"], "H3", [(P, "        RequireCommand.loaded_extensions = []\n", "        self.loaded_extensions = []\n")])
seeded("h4-factory-reads-registry", ["C13"], "H4", [(F, '''        self.__require_tag_extension(cmd, tag)
        cmd.check_next_arg("tag", tag, check_extension=False)''', '''        self.__require_tag_extension(cmd, tag)
        cmd.check_next_arg("tag", tag)''')], "pre-fix behaviour")
seeded("h4-factory-lookup-checks", ["C13"], "H4", [(F, '''cmd = commands.get_command_instance("envelope", ifcontrol, False)''', '''cmd = commands.get_command_instance("envelope", ifcontrol)''')])
benign("c13-reset-uses-clear", ["C13", "C07"], [(P, "        RequireCommand.loaded_extensions = []\n", "        RequireCommand.loaded_extensions.clear()\n")])
benign("c13-local-named-like-table", ["C13"], [(F, '''        conditions = []
        negate = False''', '''        conditions = []
        match_type = None
        negate = False''')])

# --------------------------------------------------------------------------- C18
seeded("z1-advance-before-yield", ["C18"], "Z1", [(P, '''            yield (m.lastgroup, m.group(m.lastgroup))
            self.pos += len(m.group(0))''', '''            self.pos += len(m.group(0))
            yield (m.lastgroup, m.group(m.lastgroup))''')], "verdicts unchanged; positions of errors shift; breaks the 4 exact-message tests? (line only)")
seeded("z2-line-counts-cr", ["C18"], "Z2", [(P, '''return self.text[: self.pos].count(b"\\n") + 1''', '''return len(self.text[: self.pos].splitlines()) + 1''')], "differs for CRLF / empty last line")
# (was a seeded variant while Z2 compared formulas: the byte AT the position is never a line feed when a position is asked for -
# blanks are skipped before a token is matched and the position stays on the token's first byte while it is handled - so counting it
# changes nothing on any reachable state; the evaluation of the lexer agrees, and the variant became a benign one)
benign("z2-line-counts-byte-at-pos", ["C18", "C02"], [(P, '''return self.text[: self.pos].count(b"\\n") + 1''', '''return self.text[: self.pos + 1].count(b"\\n") + 1''')])
seeded("z2-column-zero-based", ["C18"], "Z2", [(P, '''return self.pos - self.text.rfind(b"\\n", 0, self.pos)''', '''return self.pos - self.text.rfind(b"\\n", 0, self.pos) - 1''')], "no test asserts a column")
seeded("z2-column-from-start", ["C18"], "Z2", [(P, '''return self.pos - self.text.rfind(b"\\n", 0, self.pos)''', '''return self.pos - self.text.find(b"\\n", 0, self.pos)''')])
seeded("z3-length-of-text", ["C18"], "Z3", [(P, '''                self.lexer.curcolno(),
                len(tvalue),''', '''                self.lexer.curcolno(),
                len(text),''')])
seeded("z3-line-swapped-column", ["C18"], "Z3", [(P, '''                self.lexer.curlineno(),
                self.lexer.curcolno(),
                len(tvalue),''', '''                self.lexer.curcolno(),
                self.lexer.curlineno(),
                len(tvalue),''')])
seeded("z4-eager-token-list", ["C18"], "Z4", [(P, "for ttype, tvalue in self.lexer.scan(text):", "for ttype, tvalue in list(self.lexer.scan(text)):")], "every verdict unchanged; all positions point at the end of input")
benign("c18-count-with-bounds", ["C18", "C02"], [(P, '''return self.text[: self.pos].count(b"\\n") + 1''', '''return 1 + self.text.count(b"\\n", 0, self.pos)''')])

# --------------------------------------------------------------------------- C01
seeded("l1-identifier-no-underscore", ["C01"], "L1", [(P, '''(b"identifier", rb"[a-zA-Z_][\\w]*"),''', '''(b"identifier", rb"[a-zA-Z][\\w]*"),''')])
seeded("l1-number-upper-only", ["C01"], "L1", [(P, '''rb"[0-9]+[KMGkmg]?"''', '''rb"[0-9]+[KMG]?"''')], "`10k` becomes number + identifier")
seeded("l1-string-no-escape", ["C01"], "L1", [(P, '''(b"string", rb'"([^"\\\\]|\\\\.)*"'),''', '''(b"string", rb'"[^"]*"'),''')])
seeded("l1-comment-greedy", ["C01"], "L1", [(P, '''rb"/\\*[\\s\\S]*?\\*/"''', '''rb"/\\*[\\s\\S]*\\*/"''')], "two comments swallow the code between them")
seeded("l1-tag-digits-first", ["C01"], "L1", [(P, '''(b"tag", rb":[a-zA-Z_][\\w]*"),''', '''(b"tag", rb":[\\w]+"),''')])
seeded("l1-ws-no-formfeed", ["C01"], "L1", [(P, '''re.compile(rb"\\s+", re.M)''', '''re.compile(rb"[ \\t\\r\\n]+", re.M)''')])
seeded("l2-identifier-before-multiline", ["C01"], "L2", [(P, '''        (b"multiline", rb"text:[\\s\\S]*?\\n\\.\\r?$"),
        (b"string", rb'"([^"\\\\]|\\\\.)*"'),
        (b"identifier", rb"[a-zA-Z_][\\w]*"),''', '''        (b"identifier", rb"[a-zA-Z_][\\w]*"),
        (b"multiline", rb"text:[\\s\\S]*?\\n\\.\\r?$"),
        (b"string", rb'"([^"\\\\]|\\\\.)*"'),''')])
seeded("l3-multiline-flag-dropped", ["C01"], "L3", [(P, "self.regexp = re.compile(self.regexpString, re.MULTILINE)", "self.regexp = re.compile(self.regexpString)")])
seeded("l3-ignorecase-added", ["C01"], "L1", [(P, "self.regexp = re.compile(self.regexpString, re.MULTILINE)", "self.regexp = re.compile(self.regexpString, re.MULTILINE | re.DOTALL)")])
seeded("l4-identifier-lowercase-only", ["C01"], "L4", [(P, '''(b"identifier", rb"[a-zA-Z_][\\w]*"),''', '''(b"identifier", rb"[a-z_][\\w]*"),''')])
seeded("t1-matches-removed", ["C01"], "T1", [(C, '''    "values": [":is", ":contains", ":matches"],''', '''    "values": [":is", ":contains"],''')])
seeded("t1-address-part-extra", ["C01"], "T1", [(C, '''    "values": [":localpart", ":domain", ":all"],''', '''    "values": [":localpart", ":domain", ":all", ":user"],''')])
seeded("t1-days-takes-string", ["C01"], "T1", [(C, '''            "values": [":days"],
            "extra_arg": {"type": "number"},''', '''            "values": [":days"],
            "extra_arg": {"type": "string"},''')])
seeded("t1-else-after-else", ["C01"], "T1", [(C, '''class ElseCommand(ControlCommand):
    accept_children = True
    must_follow = ["if", "elsif"]''', '''class ElseCommand(ControlCommand):
    accept_children = True
    must_follow = ["if", "elsif", "else"]''')])
seeded("t1-redirect-address-optional", ["C01"], "T1", [(C, '''{"name": "address", "type": ["string"], "required": True},''', '''{"name": "address", "type": ["string", "stringlist"], "required": True},''')])
seeded("t1-size-args-swapped", ["C01"], "T1", [(C, '''        {
            "name": "comparator",
            "type": ["tag"],
            "values": [":over", ":under"],
            "required": True,
        },
        {"name": "limit", "type": ["number"], "required": True},''', '''        {"name": "limit", "type": ["number"], "required": True},
        {
            "name": "comparator",
            "type": ["tag"],
            "values": [":over", ":under"],
            "required": True,
        },''')])
seeded("t1-comparator-value-dropped", ["C01"], "T1", [(C, '''"values": ['"i;octet"', '"i;ascii-casemap"']},''', '''"values": ['"i;ascii-casemap"']},''')])
seeded("t2-tag-value-uppercase", ["C01", "C20"], {"C01": "T2", "C20": "T2"}, [(C, '''"values": [":mime"], "required": False},''', '''"values": [":MIME"], "required": False},''')])
seeded("t3-not-without-expected-first", ["C01"], "T3", [(C, '''    args_definition = [{"name": "test", "type": ["test"], "required": True}]

    def get_expected_first(self):
        return ["identifier"]
''', '''    args_definition = [{"name": "test", "type": ["test"], "required": True}]
''')])
seeded("p1-stringlist-verdict-dropped", ["C01", "C03"], "P1", [(P, '''            if not self.__curcommand.check_next_arg(
                "stringlist", self.__curstringlist
            ):
                return False''', '''            self.__curcommand.check_next_arg("stringlist", self.__curstringlist)''')], "pre-fix behaviour")
seeded("p1-addchild-verdict-dropped", ["C01", "C03"], "P1", [(P, '''                if not self.__curcommand.addchild(command):
                    raise ParseError(
                        "%s unexpected after a %s" % (tvalue, self.__curcommand.name)
                    )''', '''                self.__curcommand.addchild(command)''')])
seeded("p2-pending-command-accepted", ["C01", "C03"], "P2", [(P, '''            if self.__curcommand is not None:
                raise ParseError(
                    "end of script reached while semicolon or block expected"
                )
''', '')], "pre-fix behaviour")
seeded("p2-expected-not-checked-at-eof", ["C01", "C03"], "P2", [(P, '''            if self.__expected is not None:
                raise ParseError(
                    "end of script reached while %s expected"
                    % "|".join(self.__expected)
                )
''', '')])
seeded("p3-test-as-command", ["C01"], "P3", [(P, '''            if command.get_type() == "test":
                raise ParseError("%s may not appear as a first command" % command.name)
''', '')])
seeded("p3-action-as-test", ["C01"], "P3", [(P, '''            if test.get_type() != "test":
                raise ParseError(
                    "Expected test command, '{}' found instead".format(test.name)
                )
''', '')])
seeded("p4-parenthesis-pushes-bracket", ["C01"], "P4", [(P, '''self.__push_expected_bracket("right_parenthesis", b")")''', '''self.__push_expected_bracket("right_bracket", b")")''')])
seeded("p4-pop-accepts-mismatch", ["C01"], "P4", [(P, '''        if ttype != etype:
            raise ParseError(
                "unexpected closing bracket %s (expected %s)" % (tvalue, evalue)
            )''', '''        if ttype != etype and evalue is None:
            raise ParseError(
                "unexpected closing bracket %s (expected %s)" % (tvalue, evalue)
            )''')])
seeded("p4-block-close-without-pop", ["C01"], "P4", [(P, '''            if ttype == "right_cbracket":
                self.__pop_expected_bracket(ttype, tvalue)
                self.__up()''', '''            if ttype == "right_cbracket":
                self.__up()''')])
seeded("p5-block-on-any-command", ["C01", "C03"], "P5", [(P, '''            condition = (
                self.__curcommand.get_type() == "control"
                and self.__curcommand.accept_children
            )
            if not condition:
                return False
            self.__push_expected_bracket("right_cbracket", b"}")''', '''            self.__push_expected_bracket("right_cbracket", b"}")''')], "pre-fix behaviour")
seeded("p9-semicolon-after-else", ["C01", "C03"], "P9", [(P, '''            if self.__curcommand.accept_children:
                return False
            self.__cstate = None
            if not self.__check_command_completion''', '''            self.__cstate = None
            if not self.__check_command_completion''')], "pre-fix behaviour")
seeded("p6-must-follow-after-record", ["C01"], "P6", [(P, '''        if self.__curcommand.must_follow is not None:
            if not self.__curcommand.parent:''', '''        if self.__curcommand.must_follow is not None and self.__curcommand.parent:
            if not self.__curcommand.parent:''')], "top-level else/elsif no longer need a preceding if")
seeded("p6-predecessor-off-by-one", ["C01"], "P6", [(P, '''                    self.__curcommand.parent.children[-2]
                    if len(self.__curcommand.parent.children) >= 2''', '''                    self.__curcommand.parent.children[-1]
                    if len(self.__curcommand.parent.children) >= 2''')])
seeded("p7-expected-ignored-for-identifiers", ["C01"], "P7", [(P, '''                    if ttype not in self.__expected:''', '''                    if ttype not in self.__expected and ttype != "identifier":''')])
seeded("p8-lookup-case-sensitive", ["C01"], "P8", [(C, '''    cname = "%sCommand" % name.lower().capitalize()''', '''    cname = "%sCommand" % name.capitalize()''')], "str.capitalize lower-cases the rest, so only the check for .lower() is structural... `IF` still works; kept as checker test")
seeded("g2-pending-fallthrough", ["C01", "C20"], "G2", [(C, '''                self.curarg = None
                return True
            raise BadValue(self.curarg["name"], avalue)''', '''                self.curarg = None
                return True
            self.curarg = None''')], "a wrong-typed tag parameter is re-read as an ordinary argument")
seeded("g2-pending-not-cleared", ["C01", "C20"], "G2", [(C, '''                    self.extra_arguments[self.curarg["name"]] = avalue
                self.curarg = None
                return True''', '''                    self.extra_arguments[self.curarg["name"]] = avalue
                return True''')])
seeded("g4-required-type-unchecked", ["C01", "C20"], "G4", [(C, '''                elif not self.__is_valid_type(
                    atype, curarg["type"]
                ) or not self.__is_valid_value_for_arg(curarg, avalue, check_extension):''', '''                elif not self.__is_valid_value_for_arg(curarg, avalue, check_extension):''')], "`redirect 10;` accepted")
seeded("g4-param-values-unchecked", ["C01", "C20"], "G4", [(C, '''            condition = atype in self.curarg["extra_arg"]["type"] and (
                "values" not in self.curarg["extra_arg"]
                or avalue in self.curarg["extra_arg"]["values"]
            )''', '''            condition = atype in self.curarg["extra_arg"]["type"]''')], "`:comparator \"i;bogus\"` accepted")
seeded("g5-failed-not-raised", ["C01", "C20"], "G5", [(C, '''        if failed:
            raise BadArgument(self.name, avalue, self.args_definition[pos]["type"])
        return True''', '''        if failed and add:
            raise BadArgument(self.name, avalue, self.args_definition[pos]["type"])
        return True''')])
seeded("g6-values-case-sensitive", ["C01", "C20"], "G6", [(C, '''        if "values" in arg and value.lower() in arg["values"]:''', '''        if "values" in arg and value in arg["values"]:''')], "no upper-case tag in the suite")
benign("c01-hash-comment-no-dollar", ["C01", "C02"], [(P, '''(b"hash_comment", rb"#.*$"),''', '''(b"hash_comment", rb"#[^\\n]*"),''')], "same token extents")
benign("c01-identifier-explicit-class", ["C01", "C02"], [(P, '''(b"identifier", rb"[a-zA-Z_][\\w]*"),''', '''(b"identifier", rb"[A-Za-z_][A-Za-z0-9_]*"),''')])
benign("c01-string-noncapturing", ["C01", "C02", "C04"], [(P, '''(b"string", rb'"([^"\\\\]|\\\\.)*"'),''', '''(b"string", rb'"(?:[^"\\\\]|\\\\[^\\n])*"'),''')])
benign("c01-optional-slots-reordered", ["C01", "C07"], [(C, '''class HeaderCommand(TestCommand):
    args_definition = [
        comparator,
        match_type,''', '''class HeaderCommand(TestCommand):
    args_definition = [
        match_type,
        comparator,''')])
benign("c01-table-dict-inlined", ["C01", "C07", "C13"], [(C, '''class AddressCommand(TestCommand):
    args_definition = [
        comparator,
        address_part,''', '''class AddressCommand(TestCommand):
    args_definition = [
        comparator,
        {
            "name": "address-part",
            "values": [":localpart", ":domain", ":all"],
            "type": ["tag"],
            "required": False,
        },''')])

# --------------------------------------------------------------------------- C03
seeded("p10-result-rewritten-in-parse", ["C03"], "P10", [(P, '''            if self.__curcommand is not None:
                raise ParseError(
                    "end of script reached while semicolon or block expected"
                )
''', '''            if self.__curcommand is not None:
                raise ParseError(
                    "end of script reached while semicolon or block expected"
                )
            self.result = [c for c in self.result if c.name != "stop" or c is self.result[-1]]
''')], "drops all but the last stop; verdict unchanged")
seeded("p10-children-inserted-front", ["C03"], "P10", [(C, "        self.children += [child]\n", "        self.children.insert(0, child)\n")], "order of commands in a block reversed; boolean tests unaffected")
seeded("p10-arguments-popped", ["C03"], "P10", [(C, '''    def complete_cb(self):
        """Completion callback

        Called when a command is considered as complete by the parser.
        """
        pass''', '''    def complete_cb(self):
        """Completion callback

        Called when a command is considered as complete by the parser.
        """
        self.arguments.pop("comparator", None)''')])
seeded("p11-record-after-walk", ["C03"], "P11", [(P, '''        if not self.__curcommand.parent:
            # collect current amount of hash comments for later
            # parsing into names and desciptions
            self.__curcommand.hash_comments = self.hash_comments
            self.hash_comments = []
            self.result += [self.__curcommand]

        if onlyrecord:
            # We are done
            return
''', '''        if onlyrecord:
            # We are done
            return
'''), (P, '''            if condition:
                self.__set_expected("comma", "right_parenthesis")
            break
''', '''            if condition:
                self.__set_expected("comma", "right_parenthesis")
            break
        if self.__curcommand is not None and not self.__curcommand.parent:
            self.__curcommand.hash_comments = self.hash_comments
            self.hash_comments = []
            self.result += [self.__curcommand]
''')])
seeded("p11-comments-not-reset", ["C03", "C11"], {"C03": "P11", "C11": "N3"}, [(P, '''            self.__curcommand.hash_comments = self.hash_comments
            self.hash_comments = []
''', '''            self.__curcommand.hash_comments = self.hash_comments
''')], "every filter inherits the names of all previous ones")
seeded("g7-positional-overwrite", ["C03"], "G7", [(C, '''                if "tag" not in curarg["type"]:
                    # positional optional argument: do not fill it twice
                    self.nextargpos = pos + 1
''', '')], "pre-fix behaviour, suite passes")
seeded("g3-store-under-type", ["C03", "C01", "C20"], "G4", [(C, '''                    if add:
                        self.arguments[curarg["name"]] = avalue
                break

            condition: bool''', '''                    if add:
                        self.arguments[curarg["type"][0]] = avalue
                break

            condition: bool''')])
seeded("g3-store-stripped", ["C03", "C01", "C20"], "G4", [(C, '''                if add:
                    self.arguments[curarg["name"]] = avalue
                    # a repeated''', '''                if add:
                    self.arguments[curarg["name"]] = avalue.lower() if atype == "tag" else avalue
                    # a repeated''')])
seeded("t3p-reassign-drops", ["C03"], "T3'", [(C, '''        if condition:
            self.arguments["list-of-flags"] = self.arguments.pop("variable-list")
            self.rargs_cnt = 1''', '''        if condition:
            self.arguments["list-of-flags"] = self.arguments.pop("variable-list")
            self.rargs_cnt = 1
        else:
            self.arguments.pop("variable-list", None)''')], "hasflag \"v\" \"f\" { loses the variable list at `{`")
seeded("g5-surplus-accepted", ["C01", "C20"], "G5", [(C, '''        if self.iscomplete(atype, avalue) and self.nextargpos >= len(
            self.args_definition
        ):
            return False
''', '''        if self.iscomplete(atype, avalue) and self.nextargpos >= len(
            self.args_definition
        ):
            return False
'''), (C, '''            pos += 1
        else:
            # no remaining slot accepts this argument
            return False
''', '''            pos += 1
''')], "`keep \"x\";` accepted")
seeded("t5-keep-flags-unreachable", ["C01", "C20"], "T5", [(C, '''        if self.iscomplete(atype, avalue) and self.nextargpos >= len(
            self.args_definition
        ):
            return False
''', '''        if self.iscomplete(atype, avalue):
            return False
''')], "pre-fix behaviour")
benign("c03-append-forms", ["C03", "C01", "C02", "C13"], [(P, "            self.result += [self.__curcommand]\n", "            self.result.append(self.__curcommand)\n"), (C, "        self.children += [child]\n", "        self.children.append(child)\n")])
benign("c03-up-record-only-renamed-flag", ["C03", "C01"], [(P, '''        if onlyrecord:
            # We are done
            return
''', '''        if onlyrecord is True:
            return
''')])

# --------------------------------------------------------------------------- C04
seeded("s1-command-branch-removed", ["C04"], "S1", [(C, '''                if isinstance(value, Command):
                    value.tosieve(indentlevel, target=target)
                    continue

                if "string" in atype:''', '''                if "string" in atype:''')], "tests inside not/if are written with str()")
seeded("s1-string-before-list", ["C04"], "S1", [(C, '''                if type(value) == list:
                    if self.__get_arg_type(arg["name"]) == ["testlist"]:
                        target.write("(")''', '''                if "string" in atype and type(value) != list and False:
                    pass
                if "stringlist" in atype and "string" in atype and isinstance(value, str):
                    target.write(value)
                    continue
                if "string" in atype and not isinstance(value, Command):
                    target.write(value)
                    continue
                if type(value) == list:
                    if self.__get_arg_type(arg["name"]) == ["testlist"]:
                        target.write("(")''')], "list under a string-or-stringlist slot hits write(list)")
seeded("s2-list-items-requoted", ["C04"], "S2", [(C, '''                                        (
                                            v
                                            if len(v) > 1
                                            and v.startswith('"')
                                            and v.endswith('"')
                                            else '"%s"' % v.strip('"')
                                        )''', '''                                        '"%s"' % v.strip('"')''')], "pre-fix behaviour")
seeded("s2-string-value-stripped", ["C04"], "S2", [(C, '''                if "string" in atype:
                    target.write(value)''', '''                if "string" in atype:
                    target.write(value.strip())''')], "multi-line text loses trailing blank lines")
seeded("s2-tag-lowercased", ["C04"], "S2", [(C, '''                if "tag" in atype:
                    target.write(value)''', '''                if "tag" in atype:
                    target.write(value.lower())''')], "fixed point broken for upper-case tags only")
seeded("s3-block-open-without-space-newline", ["C04"], "S3", [(C, '''        target.write(" {\\n")''', '''        target.write(" [\\n")''')])
seeded("s3-terminator-colon", ["C04"], "S3", [(C, '''                target.write(";\\n")''', '''                target.write(":\\n")''')])
seeded("s4-no-newline-after-text-block", ["C04"], "S6", [(C, '''                    if not value.startswith('"') and not value.startswith("["):
                        target.write("\\n")''', '''                    if not value.startswith('"') and not value.startswith("[") and indentlevel == 0:
                        target.write("\\n")''')], "text: blocks inside a nested block are glued to the `;`")
seeded("s5-last-child-skipped", ["C04"], "S5", [(C, '''        for ch in self.children:
            ch.tosieve(indentlevel + 4, target=target)
        self.__print("}", indentlevel, target=target)''', '''        for ch in self.children[:1]:
            ch.tosieve(indentlevel + 4, target=target)
        self.__print("}", indentlevel, target=target)''')])
seeded("s5-separator-after-last", ["C04"], "S6", [(C, '''                            if value.index(t) != len(value) - 1:
                                target.write(", ")''', '''                            target.write(", ")''')])
benign("c04-isinstance-list", ["C04"], [(C, '''                if type(value) == list:
                    if self.__get_arg_type(arg["name"]) == ["testlist"]:
                        target.write("(")''', '''                if isinstance(value, list):
                    if self.__get_arg_type(arg["name"]) == ["testlist"]:
                        target.write("(")''')])

# --------------------------------------------------------------------------- C20
seeded("y1-registered-lowercased", ["C20"], "Y1", [(C, "            globals()[command.__name__] = command", "            globals()[command.__name__.lower()] = command")], "suite registers Capitalised names... lookups then miss")
seeded("y1-registry-in-dict", ["C20"], "Y1", [(C, "            globals()[command.__name__] = command", "            _registry[command.__name__] = command"), (C, '''def add_commands(cmds):''', '''_registry = {}


def add_commands(cmds):''')])
seeded("y1-lookup-indexes-first", ["C20", "C02"], {"C20": "Y1", "C02": "X8"}, [(C, '''    condition = (
        cname not in gl
        or not isinstance(gl[cname], type)
        or not issubclass(gl[cname], Command)
        or not hasattr(gl[cname], "args_definition")
    )''', '''    condition = (
        not isinstance(gl[cname], type)
        or not issubclass(gl[cname], Command)
        or not hasattr(gl[cname], "args_definition")
    )''')], "unregistered name -> KeyError")
seeded("y2-values-key-renamed", ["C20"], "Y2", [(C, '''        if "values" not in arg and "extension_values" not in arg:
            return True
        if "values" in arg and value.lower() in arg["values"]:
            return True''', '''        if "allowed" not in arg and "extension_values" not in arg:
            return True
        if "allowed" in arg and value.lower() in arg["allowed"]:
            return True''')], "value sets of custom definitions are ignored")
benign("c20-add-commands-setitem-loop", ["C20", "C13"], [(C, '''    for command in cmds:
        if command.__name__.endswith("Command"):
            globals()[command.__name__] = command''', '''    namespace = globals()
    for command in cmds:
        if command.__name__.endswith("Command"):
            globals()[command.__name__] = command''')])

# --------------------------------------------------------------------------- C12
seeded("o1-add-without-uniqueness", ["C12"], "O1", [(F, '''        name = self._unicode_filter_name(name)
        if self.filter_exists(name):
            raise FilterAlreadyExists
        ifcontrol = self.__create_filter(conditions, actions, matchtype)''', '''        name = self._unicode_filter_name(name)
        if self.filter_exists(name) and isinstance(name, bytes):
            raise FilterAlreadyExists
        ifcontrol = self.__create_filter(conditions, actions, matchtype)''')], "test_add_duplicate uses str names... kept as checker test")
seeded("o1-rename-onto-existing", ["C12"], "O1", [(F, '''        newname = self._unicode_filter_name(newname)
        if newname != oldname and self.filter_exists(newname):
            raise FilterAlreadyExists
        filter_def["name"] = newname
        filter_def["content"] = sieve_filter''', '''        newname = self._unicode_filter_name(newname)
        filter_def["name"] = newname
        filter_def["content"] = sieve_filter''')], "replacefilter's duplicate path is untested")
seeded("o2-update-reinserts", ["C12"], "O2", [(F, '''        filter_def["name"] = newname
        filter_def["content"] = self.__create_filter(conditions, actions, matchtype)''', '''        filter_def["name"] = newname
        filter_def["content"] = self.__create_filter(conditions, actions, matchtype)
        self.filters.remove(filter_def)
        self.filters.append(filter_def)''')], "single-filter tests do not see the position change")
seeded("o2-update-enables", ["C12"], "O2", [(F, '''        filter_def["content"] = self.__create_filter(conditions, actions, matchtype)
        if not filter_def["enabled"]:
            return self.disablefilter(newname)
        return True''', '''        filter_def["content"] = self.__create_filter(conditions, actions, matchtype)
        return True''')], "updating a disabled filter silently activates it")
seeded("o3-move-down-by-two", ["C12"], "O3", [(F, "self.filters.insert(cpt + 1, f)", "self.filters.insert(cpt + 2, f)")])
seeded("o3-move-up-from-first", ["C12"], "O3", [(F, '''                    if cpt == 0:
                        return False
''', '')], "insert(-1, f): first filter jumps to second-to-last")
seeded("o3-move-copy", ["C12"], "O3", [(F, '''                if cpt == len(self.filters) - 1:
                    return False
                self.filters.remove(f)
                self.filters.insert(cpt + 1, f)''', '''                if cpt == len(self.filters) - 1:
                    return False
                self.filters.insert(cpt + 1, f)''')])
seeded("o4-remove-first-on-unknown", ["C12"], "O4", [(F, '''        for f in self.filters:
            if f["name"] == name:
                self.filters.remove(f)
                return True
        return False''', '''        for f in self.filters:
            if f["name"] == name or not name:
                self.filters.remove(f)
                return True
        return False''')])
seeded("o4-enable-returns-true-unknown", ["C12"], "O4", [(F, "        return False  # raise NotFound", "        return True  # raise NotFound")])
seeded("o5-disable-twice", ["C12"], "O5", [(F, '''            if self.__isdisabled(f["content"]):
                # already disabled: do not wrap it a second time
                return False
''', '')], "pre-fix behaviour")
seeded("o5-enable-without-unwrap", ["C12"], "O5", [(F, '''            f["content"] = f["content"].children[0]
            f["enabled"] = True''', '''            f["enabled"] = True''')])
seeded("o5-getfilter-returns-wrapper", ["C12", "C19"], {"C12": "O5", "C19": "B3"}, [(F, '''                if not f["enabled"]:
                    return f["content"].children[0]
                return f["content"]''', '''                return f["content"]''')], "conditions of a disabled filter read back as [] / true-false")
benign("c12-move-enumerate", ["C12"], [(F, '''        cpt = 0
        for f in self.filters:
            if f["name"] == name:
                if direction == "up":''', '''        cpt = 0
        for f in self.filters:
            if name == f["name"]:
                if direction == "up":''')])
benign("c12-disable-guard-by-flag-and-content", ["C12"], [(F, '''            if self.__isdisabled(f["content"]):
                # already disabled: do not wrap it a second time
                return False''', '''            if self.__isdisabled(f["content"]) is True:
                return False''')])

# --------------------------------------------------------------------------- C11
seeded("n1-markers-swapped-in-reader", ["C11"], "N1", [(F, '''                if comment.startswith(self.filter_name_pretext):
                    name = comment.replace(self.filter_name_pretext, "")
                if comment.startswith(self.filter_desc_pretext):
                    description = comment.replace(self.filter_desc_pretext, "")''', '''                if comment.startswith(self.filter_name_pretext):
                    name = comment.replace(self.filter_name_pretext, "")
                if comment.startswith(self.filter_name_pretext):
                    description = comment.replace(self.filter_desc_pretext, "")''')], "descriptions never reload; no test has one")
seeded("n1-writer-space-after-marker", ["C11"], "N1", [(F, '''target.write("{}{}\\n".format(self.filter_name_pretext, f["name"]))''', '''target.write("{} {}\\n".format(self.filter_name_pretext, f["name"]))''')], "names gain a leading blank on every save/load cycle")
seeded("n1-description-always-written", ["C11"], "N1", [(F, '''            if "description" in f and f["description"]:
                target.write(''', '''            if "description" in f:
                target.write(''')])
seeded("n2-enabled-polarity", ["C11"], "N2", [(F, '''"enabled": not self.__isdisabled(f),''', '''"enabled": self.__isdisabled(f),''')])
seeded("n2-recogniser-any-if", ["C11", "C12"], {"C11": "N2", "C12": "O5"}, [(F, '''        if not isinstance(fcontent["test"], commands.FalseCommand):
            return False
        return True''', '''        return True''')], "every loaded `if` filter counts as disabled")
seeded("n3-comments-for-nested-too", ["C11", "C03"], {"C11": "N3", "C03": "P11"}, [(P, '''        if not self.__curcommand.parent:
            # collect current amount of hash comments for later
            # parsing into names and desciptions
            self.__curcommand.hash_comments = self.hash_comments
            self.hash_comments = []
            self.result += [self.__curcommand]''', '''        self.__curcommand.hash_comments = self.hash_comments
        self.hash_comments = []
        if not self.__curcommand.parent:
            self.result += [self.__curcommand]''')], "the first nested command swallows the filter's name comment")
seeded("n3-collector-not-reset-between-parses", ["C11", "C13"], {"C11": "N3", "C13": "H2"}, [(P, "        self.hash_comments = []\n\n        self.__cstate = None", "        self.__cstate = None")])
seeded("n4-requires-list-only", ["C11"], "N4", [(F, '''                if type(f.arguments["capabilities"]) == list:
                    [self.require(c) for c in f.arguments["capabilities"]]
                else:
                    self.require(f.arguments["capabilities"])
                continue''', '''                [self.require(c) for c in f.arguments["capabilities"]]
                continue''')], "`require \"fileinto\";` is loaded as the extensions f, i, l, e ...")
seeded("n4-filters-prepended", ["C11"], "N4", [(F, '''            self.filters += [
                {
                    "name": name,
                    "description": description,''', '''            self.filters[:0] = [
                {
                    "name": name,
                    "description": description,''')], "order reversed on load")
benign("c11-writer-percent-format", ["C11"], [(F, '''target.write("{}{}\\n".format(self.filter_name_pretext, f["name"]))''', '''target.write("%s%s\\n" % (self.filter_name_pretext, f["name"]))''')])

# --------------------------------------------------------------------------- C06
seeded("f1-require-after-filters", ["C06", "C11"], {"C06": "F1", "C11": "N4"}, [(F, '''        cmd = self.__gen_require_command()
        if cmd:
            cmd.tosieve(target=target)
            target.write("\\n")
        for f in self.filters:
            target.write("{}{}\\n".format(self.filter_name_pretext, f["name"]))''', '''        for f in self.filters[:0]:
            pass
        for f in self.filters:
            target.write("{}{}\\n".format(self.filter_name_pretext, f["name"]))''')])
seeded("f1-requires-pruned-on-remove", ["C06"], "F1", [(F, '''            if f["name"] == name:
                self.filters.remove(f)
                return True''', '''            if f["name"] == name:
                self.filters.remove(f)
                if not self.filters:
                    self.requires = []
                return True''')])
seeded("f2-envelope-not-required", ["C06"], "F2", [(F, '''                cmd = commands.get_command_instance("envelope", ifcontrol, False)
                self.require("envelope")''', '''                cmd = commands.get_command_instance("envelope", ifcontrol, False)''')])
seeded("f2-action-extension-conditional", ["C06"], "F2", [(F, '''            if action.extension is not None:
                self.require(action.extension)''', '''            if action.extension is not None and actdef[1:]:
                self.require(action.extension)''')], "argument-less extension actions lose their require")
seeded("f3-derivation-values-only", ["C06"], "F3", [(F, '''            if tag in argdef.get("extension_values", {}):
                self.require(argdef["extension_values"][tag])
''', '')], ":regex / :count / :seconds lose their require")
seeded("f4-derivation-call-dropped", ["C06"], "F4", [(F, '''                self.__require_tag_extension(cmd, comp_tag)
                cmd.check_next_arg("tag", comp_tag, check_extension=False)
                next_arg_pos = 4''', '''                cmd.check_next_arg("tag", comp_tag, check_extension=False)
                next_arg_pos = 4''')], "pre-fix behaviour for currentdate")
seeded("f4-action-tags-unrequired", ["C06"], "F4", [(F, '''                    atype = "tag"
                    self.__require_tag_extension(action, arg)''', '''                    atype = "tag"''')], "fileinto :flags / vacation :seconds without require")
seeded("f5a-header-name-unquoted", ["C06"], "F5a", [(F, '''            cmd.check_next_arg("string", self.__quote_if_necessary(condition[0]))''', '''            cmd.check_next_arg("string", condition[0])''')])
seeded("f5a-action-list-raw", ["C06"], "F5a", [(F, '''                    arg = [self.__quote_if_necessary(item) for item in arg]
''', '')])
seeded("f5b-helper-no-escape", ["C06"], "F5b", [(F, '''            return '"%s"' % self.__escape(value)''', '''            return '"%s"' % value''')], "pre-fix behaviour: injection")
seeded("f5b-exists-inline-no-escape", ["C06"], "F5b", [(F, '''"[%s]" % (",".join('"%s"' % self.__escape(val) for val in c[1:]))''', '''"[%s]" % (",".join('"%s"' % val for val in c[1:]))''')])
seeded("f5b-escape-order", ["C06"], "F5b", [(F, '''return value.replace("\\\\", "\\\\\\\\").replace('"', '\\\\"')''', '''return value.replace('"', '\\\\"').replace("\\\\", "\\\\\\\\")''')], "quote -> \\\" -> \\\\\" : the quote ends the string again")
seeded("f6-list-as-dict-key", ["C06"], "F6", [(F, '''                if isinstance(arg, str):
                    self.check_if_arg_is_extension(arg)''', '''                self.check_if_arg_is_extension(arg)''')], "pre-fix behaviour")
benign("c06-require-helper-inlined-const", ["C06"], [(F, '''                cmd = commands.get_command_instance("envelope", ifcontrol, False)
                self.require("envelope")''', '''                cmd = commands.get_command_instance("envelope", ifcontrol, False)
                self.require(cmd.extension)''')])

# --------------------------------------------------------------------------- C19
seeded("b1-address-not-read", ["C19"], "B1", [(F, '''                    commands.HeaderCommand,
                    commands.AddressCommand,''', '''                    commands.HeaderCommand,''')], "pre-fix behaviour")
seeded("b1-body-not-read", ["C19"], "B1", [(F, '''                    commands.BodyCommand,
''', '')], "test_get_filter_conditions covers body... kept as checker test")
seeded("b1-envelope-negation-unfolded", ["C19"], "B1", [(F, '''                    if node.name in ["header", "envelope", "address"]:''', '''                    if node.name in ["header", "address"]:''')], "a :notis envelope condition reads back as :is")
seeded("b1-currentdate-no-tuple", ["C19"], "B1", [(C, '''    def args_as_tuple(self):
        """Return arguments as a list."""
        result = ("currentdate",)''', '''    def as_tuple(self):
        """Return arguments as a list."""
        result = ("currentdate",)''')])
seeded("b2-envelope-comma-decides", ["C19"], "B2", [(C, '''        value = self.arguments["header-list"]
        if isinstance(value, list):
            # FIXME
            value = "[{}]".format(",".join('"{}"'.format(item) for item in value))
        if value.startswith("["):
            result += (tools.to_list(value),)
        else:
            result += ([value.strip('"')],)
        value = self.arguments["key-list"]''', '''        value = self.arguments["header-list"]
        if isinstance(value, list):
            # FIXME
            value = "[{}]".format(",".join('"{}"'.format(item) for item in value))
        if "," in value:
            result += (tools.to_list(value),)
        else:
            result += ([value.strip('"[]')],)
        value = self.arguments["key-list"]''')], "a new comma-based decision (not in the known findings)")
seeded("b3-conditions-bypass-getfilter", ["C19"], "B3", [(F, '''        """Retrieve conditions of the given filter."""
        flt = self.getfilter(name)''', '''        """Retrieve conditions of the given filter."""
        flt = next((f["content"] for f in self.filters if f["name"] == name), None)''')], "disabled filters read back as no conditions")
benign("c19-reader-tuple-reordered", ["C19"], [(F, '''                    commands.HeaderCommand,
                    commands.AddressCommand,
                    commands.SizeCommand,''', '''                    commands.AddressCommand,
                    commands.HeaderCommand,
                    commands.SizeCommand,''')])

# --------------------------------------------------------------------------- P12-P15 (transitions, attachment)
seeded("p12-trailing-comma-in-list", ["C01"], "P12", [(P, '''        if ttype == "comma":
            self.__set_expected("string")
            return True
        if ttype == "right_bracket":''', '''        if ttype == "comma":
            self.__set_expected("string", "right_bracket")
            return True
        if ttype == "right_bracket":''')], '["a",] accepted; suite has no trailing-comma script... (misplaced comma test uses leading comma)')
seeded("p12-empty-testlist", ["C01"], "P12", [(P, '''            self.__push_expected_bracket("right_parenthesis", b")")
            self.__set_expected("identifier")''', '''            self.__push_expected_bracket("right_parenthesis", b")")
            self.__set_expected("identifier", "right_parenthesis")''')], "anyof () accepted")
seeded("p12-empty-stringlist", ["C01"], "P12", [(P, '''            self.__curstringlist = []
            self.__set_expected("string")''', '''            self.__curstringlist = []''')])
seeded("p12-semicolon-not-demanded", ["C01"], "P12", [(P, '''            if testsemicolon:
                self.__set_expected("semicolon")
            return True''', '''            return True''')])
seeded("p12-not-accepts-parenthesis", ["C01"], "P12", [(C, '''    args_definition = [{"name": "test", "type": ["test"], "required": True}]

    def get_expected_first(self):
        return ["identifier"]''', '''    args_definition = [{"name": "test", "type": ["test"], "required": True}]

    def get_expected_first(self):
        return ["identifier", "left_parenthesis"]''')])
seeded("p12-expected-first-not-installed", ["C01"], "P12", [(P, "            self.__expected = test.get_expected_first()\n", "")], "anyof true { } style accepted")
seeded("p13-nested-command-not-attached", ["C01", "C03"], "P13", [(P, '''            if self.__curcommand is not None:
                if not self.__curcommand.addchild(command):''', '''            if self.__curcommand is not None and command.get_type() != "action":
                if not self.__curcommand.addchild(command):''')], "actions inside blocks accepted but absent from the tree; boolean tests unaffected")
seeded("p13-test-not-given-to-parent", ["C01", "C03"], "P13", [(P, '''            if not self.__curcommand.check_next_arg("test", test):
                return False
            self.__expected = test.get_expected_first()''', '''            if self.__curcommand.variable_args_nb and not self.__curcommand.check_next_arg("test", test):
                return False
            self.__expected = test.get_expected_first()''')])
seeded("p14-first-item-only", ["C01", "C03"], "P14", [(P, '''            self.__curstringlist += [tvalue.decode("utf-8")]''', '''            if not self.__curstringlist:
                self.__curstringlist += [tvalue.decode("utf-8")]''')], "lists keep only their first item; compilation_ok tests unaffected")
seeded("p14-list-not-fresh", ["C01", "C03"], "P14", [(P, '''            self.__cstate = self.__stringlist
            self.__curstringlist = []''', '''            self.__cstate = self.__stringlist
            if self.__curstringlist is None:
                self.__curstringlist = []''')], "second list of a command also contains the first one's items")
seeded("p15-number-as-string", ["C01", "C03"], "P15", [(P, '''        if ttype in ["number", "tag"]:
            return self.__curcommand.check_next_arg(ttype, tvalue.decode("ascii"))''', '''        if ttype in ["number", "tag"]:
            return self.__curcommand.check_next_arg("tag" if ttype == "tag" else "string", tvalue.decode("ascii"))''')])
seeded("p15-value-lowercased", ["C01", "C03"], "P15", [(P, '''            return self.__curcommand.check_next_arg("string", tvalue.decode("utf-8"))''', '''            return self.__curcommand.check_next_arg("string", tvalue.decode("utf-8").strip())''')])

_MOVE_OLD = '''        cpt = 0
        for f in self.filters:
            if f["name"] == name:
                if direction == "up":
                    if cpt == 0:
                        return False
                    self.filters.remove(f)
                    self.filters.insert(cpt - 1, f)
                    return True
                if cpt == len(self.filters) - 1:
                    return False
                self.filters.remove(f)
                self.filters.insert(cpt + 1, f)
                return True
            cpt += 1
'''
benign("c12-move-by-swap", ["C12", "C11", "C19", "C06"], [(F, _MOVE_OLD, '''        for cpt, f in enumerate(self.filters):
            if f["name"] != name:
                continue
            if direction == "up":
                if cpt == 0:
                    return False
                self.filters[cpt], self.filters[cpt - 1] = self.filters[cpt - 1], self.filters[cpt]
                return True
            if cpt == len(self.filters) - 1:
                return False
            self.filters[cpt], self.filters[cpt + 1] = self.filters[cpt + 1], self.filters[cpt]
            return True
''')], "movefilter as a guarded in-place swap of neighbours")
seeded("o3-swap-negative-index", ["C12"], "O3", [(F, _MOVE_OLD, '''        for cpt, f in enumerate(self.filters):
            if f["name"] != name:
                continue
            newpos = cpt - 1 if direction == "up" else cpt + 1
            try:
                self.filters[cpt], self.filters[newpos] = self.filters[newpos], f
            except IndexError:
                return False
            return True
''')], "index -1 wraps to the last entry")

seeded("u7-connect-ignores-verdict", ["C16"], "U7", [(M, '''        if self.__authenticate(login, password, authz_id, authmech):
            return True
        return False''', '''        self.__authenticate(login, password, authz_id, authmech)
        return True''')], "connect reports success whatever the server answered")
benign("c16-connect-returns-call", ["C16", "C10"], [(M, '''        if self.__authenticate(login, password, authz_id, authmech):
            return True
        return False''', '''        return self.__authenticate(login, password, authz_id, authmech)''')])

seeded("g8-stale-tag-parameter", ["C04", "C03"], "G8", [(C, '''                    self.arguments[curarg["name"]] = avalue
                    # a repeated tag replaces the previous one, parameter included
                    self.extra_arguments.pop(curarg["name"], None)
''', '''                    self.arguments[curarg["name"]] = avalue
''')], "the defect repaired by dcddc53")
benign("c04-refill-drops-with-del", ["C04", "C03"], [(C, '''                    self.extra_arguments.pop(curarg["name"], None)
''', '''                    if curarg["name"] in self.extra_arguments:
                        del self.extra_arguments[curarg["name"]]
''')])

seeded("a8-capabilities-survive-reconnect", ["C10", "C16", "C14", "C15", "C05"], "A8", [(M, '''        self.__capabilities = {}
        self.__read_buffer = b""

        if not self.__get_capabilities():''', '''        self.__read_buffer = b""

        if not self.__get_capabilities():''')], "the defect repaired by 87013df (capability half)")
seeded("a8-buffer-survives-reconnect", ["C10", "C05", "C15"], "A8", [(M, '''        self.__capabilities = {}
        self.__read_buffer = b""

        if not self.__get_capabilities():''', '''        self.__capabilities = {}

        if not self.__get_capabilities():''')], "the defect repaired by 87013df (buffer half)")
benign("a8-reset-with-clear", ["C10"], [(M, '''        self.__capabilities = {}
        self.__read_buffer = b""

        if not self.__get_capabilities():''', '''        self.__capabilities.clear()
        self.__read_buffer = b""

        if not self.__get_capabilities():''')])

seeded("q8-ok-literal-unread", ["C09", "C15", "C17"], "Q8", [(M, '''                elif m.group(2) is not None:
                    # the text of an OK reply may be sent as a literal too
                    tail = self.__error_expr.match(m.group(2))
                    if tail.group(2) is not None:
                        msize = self.__size_expr.match(tail.group(2))
                        if msize is not None:
                            self.__read_block(int(msize.group(1)) + 2)
''', '''''')], "the defect repaired by the fix: commit `consume a literal sent with an OK reply`")

benign("g10-completion-refuses-incomplete", ["C20"], [(P, '''            if not self.__check_command_completion(testsemicolon=False):
                return False
            self.__curcommand.complete_cb()''', '''            if not self.__curcommand.iscomplete():
                return False
            if not self.__check_command_completion(testsemicolon=False):
                return False
            self.__curcommand.complete_cb()''')], "the repaired shape of the recorded finding G10 (breaks the pinned `reject;` tests, hence not committed): the check must be silent on it")
